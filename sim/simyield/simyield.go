// Package simyield is the seam between instrumented repository code and the simulator.
// It is copied into the scratch copy of the repository at check time (never committed to
// /repo). Every hook is a nil-checked package variable: without a simulator installed the
// calls are no-ops and ListenAndServe is the standard library's.
package simyield

import "net/http"

// Hook, when set, is called at every instrumented statement with its "file:line" site.
var Hook func(site string)

// Y is inserted before every statement of the repository's request-path and job code.
func Y(site string) {
	if h := Hook; h != nil {
		h(site)
	}
}

// ListenHook, when set, replaces (*http.Server).ListenAndServe for instrumented call sites.
var ListenHook func(srv *http.Server) error

func ListenAndServe(srv *http.Server) error {
	if h := ListenHook; h != nil {
		return h(srv)
	}
	return srv.ListenAndServe()
}

// LockHook / UnlockHook: instrumented repository code calls X.Lock() as
// simyield.Lock(X.TryLock, X.Lock, site) and X.Unlock() as simyield.Unlock(X.Unlock), so that a
// simulator can keep a task that waits for a mutex out of the runnable set (a goroutine blocked
// inside sync.Mutex.Lock is not durably blocked for testing/synctest and would stall quiescence).
var LockHook func(try func() bool, lock func(), site string)
var UnlockHook func()

func Lock(try func() bool, lock func(), site string) {
	if h := LockHook; h != nil {
		h(try, lock, site)
		return
	}
	lock()
}

func Unlock(unlock func()) {
	unlock()
	if h := UnlockHook; h != nil {
		h()
	}
}

// OnceDo wraps X.Do(f) for a sync.Once X: the function runs with yields suppressed, because a
// task parked inside Once.Do would hold the Once's internal mutex and the next caller would
// block in a way testing/synctest does not count as durably blocked.
var NoYieldHook func(enter bool)

func OnceDo(do func(func()), f func()) {
	h := NoYieldHook
	if h == nil {
		do(f)
		return
	}
	do(func() {
		h(true)
		defer h(false)
		f()
	})
}
