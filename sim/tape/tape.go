// Package tape is the single source of choice for every simulated run.
//
// In generate mode every Draw comes from a PCG seeded from (VERIF_SEED, run index) and is
// recorded; in replay mode the recorded values are returned (0 past the end). Choices are
// encoded so that 0 is the simplest option, which is what makes tape-level shrinking work.
package tape

import (
	"math/big"
	"math/rand/v2"
)

type Tape struct {
	rng    *rand.Rand
	rec    []uint32
	replay []uint32
	pos    int
	isRep  bool
}

// New returns a generating tape for (seed, run).
func New(seed, run uint64) *Tape {
	return &Tape{rng: rand.New(rand.NewPCG(seed, run*0x9E3779B97F4A7C15+0xD1B54A32D192ED03))}
}

// Replay returns a tape that replays vals and yields 0 afterwards.
func Replay(vals []uint32) *Tape {
	cp := make([]uint32, len(vals))
	copy(cp, vals)
	return &Tape{replay: cp, isRep: true}
}

// Recorded is the list of values consumed so far (generate or replay mode).
func (t *Tape) Recorded() []uint32 {
	out := make([]uint32, len(t.rec))
	copy(out, t.rec)
	return out
}

// Pos is the number of draws consumed.
func (t *Tape) Pos() int { return len(t.rec) }

func (t *Tape) raw(n uint32) uint32 {
	var v uint32
	if t.isRep {
		if t.pos < len(t.replay) {
			v = t.replay[t.pos]
			if n != 0 && v >= n {
				v = v % n
			}
		}
		t.pos++
	} else {
		if n == 0 {
			v = t.rng.Uint32()
		} else {
			v = t.rng.Uint32N(n)
		}
	}
	t.rec = append(t.rec, v)
	return v
}

// Draw returns a value in [0, n). n <= 1 consumes nothing and returns 0.
func (t *Tape) Draw(n int) int {
	if n <= 1 {
		return 0
	}
	return int(t.raw(uint32(n)))
}

// U32 returns a full 32-bit value.
func (t *Tape) U32() uint32 { return t.raw(0) }

// Chance is true with probability num/den; false is the simple choice (encoded as 0).
func (t *Tape) Chance(num, den int) bool {
	if num <= 0 {
		return false
	}
	v := t.Draw(den)
	return v >= den-num
}

// Weighted picks index i with probability w[i]/sum(w); put the simplest option first.
func (t *Tape) Weighted(w ...int) int {
	sum := 0
	for _, x := range w {
		sum += x
	}
	v := t.Draw(sum)
	for i, x := range w {
		if v < x {
			return i
		}
		v -= x
	}
	return len(w) - 1
}

// Range returns a value in [lo, hi].
func (t *Tape) Range(lo, hi int) int {
	if hi <= lo {
		return lo
	}
	return lo + t.Draw(hi-lo+1)
}

// Bytes returns n tape-chosen bytes.
func (t *Tape) Bytes(n int) []byte {
	out := make([]byte, n)
	for i := 0; i < n; i += 4 {
		v := t.U32()
		for j := 0; j < 4 && i+j < n; j++ {
			out[i+j] = byte(v >> (8 * j))
		}
	}
	return out
}

// BigBelow returns a uniform-ish value in [0, m) (m > 0).
func (t *Tape) BigBelow(m *big.Int) *big.Int {
	nb := (m.BitLen() + 7) / 8
	b := t.Bytes(nb + 8)
	v := new(big.Int).SetBytes(b)
	return v.Mod(v, m)
}

// Pick returns a tape-chosen element index of a slice of length n (0 when n == 0).
func (t *Tape) Pick(n int) int { return t.Draw(n) }
