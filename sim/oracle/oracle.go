// Package oracle holds the reference models. Nothing here calls into the repository: hashing
// is iden3 Poseidon / x/crypto Keccak over our own packing, the tree is our own sparse
// recursion, validity predicates are written from the property text.
package oracle

import (
	"encoding/binary"
	"math/big"
	"sort"
	"sync"

	"github.com/iden3/go-iden3-crypto/poseidon"
	"golang.org/x/crypto/sha3"
)

// R is the BN254 scalar field order.
var R, _ = new(big.Int).SetString("21888242871839275222246405745257275088548364400416034343698204186575808495617", 10)

// Q is the BN254 base field order.
var Q, _ = new(big.Int).SetString("21888242871839275222246405745257275088696311157297823662689037894645226208583", 10)

func Mod(v *big.Int) *big.Int { return new(big.Int).Mod(v, R) }

// H2 is the reference two-input Poseidon.
func H2(a, b *big.Int) *big.Int {
	h, err := poseidon.Hash([]*big.Int{a, b})
	if err != nil {
		panic(err)
	}
	return h
}

var (
	emptyMu  sync.Mutex
	emptyTab = []*big.Int{big.NewInt(0)}
)

// Empty returns the root of an all-zero subtree of the given height (0 = leaf).
func Empty(level int) *big.Int {
	emptyMu.Lock()
	defer emptyMu.Unlock()
	for len(emptyTab) <= level {
		p := emptyTab[len(emptyTab)-1]
		emptyTab = append(emptyTab, H2(p, p))
	}
	return emptyTab[level]
}

// Tree is the contract's view: a leaf array (sparse) of a complete binary tree.
type Tree struct {
	Depth  int
	Leaves map[uint64]*big.Int // absent or zero = empty
	memo   map[[2]uint64]*big.Int
}

func NewTree(depth int) *Tree {
	return &Tree{Depth: depth, Leaves: map[uint64]*big.Int{}, memo: map[[2]uint64]*big.Int{}}
}

func (t *Tree) Clone() *Tree {
	c := NewTree(t.Depth)
	for k, v := range t.Leaves {
		c.Leaves[k] = v
	}
	for k, v := range t.memo {
		c.memo[k] = v
	}
	return c
}

func (t *Tree) Get(i uint64) *big.Int {
	if v, ok := t.Leaves[i]; ok {
		return v
	}
	return big.NewInt(0)
}

func (t *Tree) Set(i uint64, v *big.Int) {
	v = Mod(v)
	for l := 0; l <= t.Depth; l++ {
		delete(t.memo, [2]uint64{uint64(l), i >> uint(l)})
	}
	if v.Sign() == 0 {
		delete(t.Leaves, i)
		return
	}
	t.Leaves[i] = new(big.Int).Set(v)
}

func (t *Tree) sortedIdx() []uint64 {
	ks := make([]uint64, 0, len(t.Leaves))
	for k := range t.Leaves {
		ks = append(ks, k)
	}
	sort.Slice(ks, func(i, j int) bool { return ks[i] < ks[j] })
	return ks
}

// node computes the hash of the subtree of height level whose leaves are [prefix<<level, (prefix+1)<<level).
func (t *Tree) node(ks []uint64, level int, prefix uint64) *big.Int {
	if t.memo != nil {
		if h, ok := t.memo[[2]uint64{uint64(level), prefix}]; ok {
			return h
		}
	}
	h := t.nodeRaw(ks, level, prefix)
	if t.memo != nil && level > 0 {
		t.memo[[2]uint64{uint64(level), prefix}] = h
	}
	return h
}

func (t *Tree) nodeRaw(ks []uint64, level int, prefix uint64) *big.Int {
	lo := prefix << uint(level)
	hi := lo + (uint64(1) << uint(level)) // exclusive; level <= 32 so no overflow
	a := sort.Search(len(ks), func(i int) bool { return ks[i] >= lo })
	b := sort.Search(len(ks), func(i int) bool { return ks[i] >= hi })
	if a == b {
		return Empty(level)
	}
	if level == 0 {
		return t.Leaves[ks[a]]
	}
	sub := ks[a:b]
	return H2(t.node(sub, level-1, prefix*2), t.node(sub, level-1, prefix*2+1))
}

// Root is the root of the current leaves (memoised per subtree; Set invalidates ancestors).
func (t *Tree) Root() *big.Int {
	return t.node(t.sortedIdx(), t.Depth, 0)
}

// RootFresh recomputes the root from the leaves alone, ignoring every memoised hash.
func (t *Tree) RootFresh() *big.Int {
	c := &Tree{Depth: t.Depth, Leaves: t.Leaves}
	return c.node(c.sortedIdx(), c.Depth, 0)
}

// Path returns the sibling path of leaf i, leaf level first.
func (t *Tree) Path(i uint64) []*big.Int {
	ks := t.sortedIdx()
	out := make([]*big.Int, t.Depth)
	for l := 0; l < t.Depth; l++ {
		sib := (i >> uint(l)) ^ 1
		out[l] = t.node(ks, l, sib)
	}
	return out
}

// MerkleRoot folds a leaf up a sibling path using the low Depth bits of index as directions
// (bit = 0: current node is the left child).
func MerkleRoot(leaf *big.Int, index uint64, path []*big.Int) *big.Int {
	cur := Mod(leaf)
	for l, s := range path {
		sm := Mod(s)
		if (index>>uint(l))&1 == 0 {
			cur = H2(cur, sm)
		} else {
			cur = H2(sm, cur)
		}
	}
	return cur
}

func pad32(v *big.Int) []byte {
	b := make([]byte, 32)
	v.FillBytes(b)
	return b
}

func keccakModR(data []byte) *big.Int {
	h := sha3.NewLegacyKeccak256()
	h.Write(data)
	return Mod(new(big.Int).SetBytes(h.Sum(nil)))
}

// Keccak256 is the plain digest (not reduced).
func Keccak256(data []byte) []byte {
	h := sha3.NewLegacyKeccak256()
	h.Write(data)
	return h.Sum(nil)
}

// InsertionPacking is the byte string the on-chain verifier hashes for an insertion batch.
// All 256-bit values must already be < 2^256; callers pass canonical (reduced) values.
func InsertionPacking(start uint32, pre, post *big.Int, comms []*big.Int) []byte {
	var data []byte
	var ib [4]byte
	binary.BigEndian.PutUint32(ib[:], start)
	data = append(data, ib[:]...)
	data = append(data, pad32(pre)...)
	data = append(data, pad32(post)...)
	for _, c := range comms {
		data = append(data, pad32(c)...)
	}
	return data
}

func InsertionHash(start uint32, pre, post *big.Int, comms []*big.Int) *big.Int {
	return keccakModR(InsertionPacking(start, pre, post, comms))
}

func DeletionPacking(indices []uint32, pre, post *big.Int) []byte {
	var data []byte
	for _, ix := range indices {
		var ib [4]byte
		binary.BigEndian.PutUint32(ib[:], ix)
		data = append(data, ib[:]...)
	}
	data = append(data, pad32(pre)...)
	data = append(data, pad32(post)...)
	return data
}

func DeletionHash(indices []uint32, pre, post *big.Int) *big.Int {
	return keccakModR(DeletionPacking(indices, pre, post))
}

// HashOfBytes is Keccak-256 mod r of arbitrary bytes (for forged packings).
func HashOfBytes(data []byte) *big.Int { return keccakModR(data) }

// ---------------------------------------------------------------------------------------
// Validity predicates, from the property text. All field-valued inputs are arbitrary
// integers and are reduced mod r first (that is what assigning them to a circuit does);
// the start index / deletion indices are integers modulo r as well, because a witness can
// carry any field element there.

// InsertionWitness is everything a prover assigns (before hints).
type InsertionWitness struct {
	InputHash *big.Int
	Start     *big.Int // field element
	Pre, Post *big.Int
	Comms     []*big.Int
	Paths     [][]*big.Int
}

// InsertionValid decides C01+C03 for the witness at the given depth: it returns ok and,
// when not ok, a short reason.
func InsertionValid(depth int, w *InsertionWitness) (bool, string) {
	start := Mod(w.Start)
	// StartIndex must be its own 32-bit encoding (it is hashed as uint32)
	if start.BitLen() > 32 {
		return false, "start-not-32-bit"
	}
	batch := len(w.Comms)
	limit := new(big.Int).Lsh(big.NewInt(1), uint(depth))
	root := Mod(w.Pre)
	for i := 0; i < batch; i++ {
		idx := new(big.Int).Add(start, big.NewInt(int64(i)))
		idx.Mod(idx, R)
		if idx.Cmp(limit) >= 0 {
			return false, "position-outside-tree"
		}
		if len(w.Paths[i]) != depth {
			return false, "path-length"
		}
		if MerkleRoot(big.NewInt(0), idx.Uint64(), w.Paths[i]).Cmp(root) != 0 {
			return false, "leaf-not-empty-under-running-root"
		}
		root = MerkleRoot(w.Comms[i], idx.Uint64(), w.Paths[i])
	}
	if root.Cmp(Mod(w.Post)) != 0 {
		return false, "post-root-mismatch"
	}
	cs := make([]*big.Int, batch)
	for i := range cs {
		cs[i] = Mod(w.Comms[i])
	}
	want := InsertionHash(uint32(start.Uint64()), Mod(w.Pre), Mod(w.Post), cs)
	if Mod(w.InputHash).Cmp(want) != 0 {
		return false, "input-hash-mismatch"
	}
	return true, ""
}

type DeletionWitness struct {
	InputHash *big.Int
	Indices   []*big.Int // field elements
	Pre, Post *big.Int
	Items     []*big.Int
	Paths     [][]*big.Int
}

// DeletionValid decides C02+C03 for the witness at the given depth.
func DeletionValid(depth int, w *DeletionWitness) (bool, string) {
	batch := len(w.Indices)
	root := Mod(w.Pre)
	lim := new(big.Int).Lsh(big.NewInt(1), uint(depth))
	lim2 := new(big.Int).Lsh(big.NewInt(1), uint(depth+1))
	idx32 := make([]uint32, batch)
	for i := 0; i < batch; i++ {
		idx := Mod(w.Indices[i])
		if idx.BitLen() > 32 {
			return false, "index-not-32-bit"
		}
		idx32[i] = uint32(idx.Uint64())
		if idx.Cmp(lim2) >= 0 {
			return false, "index-beyond-padding-range"
		}
		if len(w.Paths[i]) != depth {
			return false, "path-length"
		}
		if idx.Cmp(lim) >= 0 {
			continue // padding slot: no-op whatever its other fields contain
		}
		if MerkleRoot(w.Items[i], idx.Uint64(), w.Paths[i]).Cmp(root) != 0 {
			return false, "item-not-under-running-root"
		}
		root = MerkleRoot(big.NewInt(0), idx.Uint64(), w.Paths[i])
	}
	if root.Cmp(Mod(w.Post)) != 0 {
		return false, "post-root-mismatch"
	}
	want := DeletionHash(idx32, Mod(w.Pre), Mod(w.Post))
	if Mod(w.InputHash).Cmp(want) != 0 {
		return false, "input-hash-mismatch"
	}
	return true, ""
}
