package rollup

import (
	"fmt"
	"math/big"
	"sort"

	"verifsim/oracle"
	"verifsim/tape"
)

// World is one rollup history: the contract's leaf array, earlier snapshots (for stale and
// replayed material) and the honest sequencer's bookkeeping.
type World struct {
	Depth   int
	Size    uint64
	Model   *oracle.Tree
	Snaps   []*oracle.Tree // earlier states
	Next    uint64         // lowest never-written index (append position)
	Written []uint64       // indices that have held a value at some time
	// Planted is the hint forgery that belongs to the witness the last algebraic fault built
	// (the two are useless without each other).
	Planted *HintStrategy
}

func NewWorld(depth int) *World {
	return &World{Depth: depth, Size: uint64(1) << uint(depth), Model: oracle.NewTree(depth)}
}

func (w *World) Snapshot() {
	if len(w.Snaps) < 6 {
		w.Snaps = append(w.Snaps, w.Model.Clone())
	} else {
		w.Snaps[len(w.Snaps)%6] = w.Model.Clone()
	}
}

// Shape classifies the state for the reach measure.
func (w *World) Shape() string {
	n := uint64(len(w.Model.Leaves))
	switch {
	case n == 0 && w.Next == 0:
		return "empty"
	case n == w.Size:
		return "full"
	case w.Next > n:
		return "holes"
	case w.Model.Get(w.Size-1).Sign() != 0:
		return "last-leaf"
	default:
		return "partial"
	}
}

func (w *World) occupied() []uint64 {
	ks := make([]uint64, 0, len(w.Model.Leaves))
	for k := range w.Model.Leaves {
		ks = append(ks, k)
	}
	sort.Slice(ks, func(i, j int) bool { return ks[i] < ks[j] })
	return ks
}

// RandomCommitment draws a leaf value: mostly random field elements, sometimes edge values.
func RandomCommitment(t *tape.Tape) *big.Int {
	switch t.Weighted(10, 1, 1, 1) {
	case 0:
		v := t.BigBelow(oracle.R)
		if v.Sign() == 0 {
			v.SetInt64(7)
		}
		return v
	case 1:
		return big.NewInt(int64(1 + t.Draw(9)))
	case 2:
		return new(big.Int).Sub(oracle.R, big.NewInt(int64(1+t.Draw(3))))
	default:
		// leading zero bytes
		v := t.BigBelow(new(big.Int).Lsh(big.NewInt(1), uint(8*(1+t.Draw(30)))))
		if v.Sign() == 0 {
			v.SetInt64(3)
		}
		return v
	}
}

// Populate writes k leaves directly into the contract state (history made by earlier
// accepted batches; the circuit under test is not involved).
func (w *World) Populate(t *tape.Tape, k int) {
	for i := 0; i < k && w.Next < w.Size; i++ {
		w.Model.Set(w.Next, RandomCommitment(t))
		w.Written = append(w.Written, w.Next)
		w.Next++
	}
}

// Punch clears k occupied leaves directly (earlier accepted deletions).
func (w *World) Punch(t *tape.Tape, k int) {
	for i := 0; i < k; i++ {
		occ := w.occupied()
		if len(occ) == 0 {
			return
		}
		w.Model.Set(occ[t.Pick(len(occ))], big.NewInt(0))
	}
}

// ---------------------------------------------------------------------------------------
// Insertion

// HonestInsertion builds a valid batch at the given start over the given state. The start
// must address empty leaves inside the tree.
func HonestInsertion(state *oracle.Tree, start uint64, comms []*big.Int) *oracle.InsertionWitness {
	st := state.Clone()
	w := &oracle.InsertionWitness{Start: new(big.Int).SetUint64(start), Pre: st.Root(), Comms: comms}
	for i, c := range comms {
		idx := start + uint64(i)
		w.Paths = append(w.Paths, st.Path(idx))
		st.Set(idx, oracle.Mod(c))
	}
	w.Post = st.Root()
	RehashInsertion(w)
	return w
}

// RehashInsertion sets the public input to the contract's hash of the witness's own values
// (what an adversary does so that only the targeted logic stands in its way).
func RehashInsertion(w *oracle.InsertionWitness) {
	cs := make([]*big.Int, len(w.Comms))
	for i := range cs {
		cs[i] = oracle.Mod(w.Comms[i])
	}
	start := oracle.Mod(w.Start)
	w.InputHash = oracle.InsertionHash(uint32(new(big.Int).And(start, big.NewInt(0xffffffff)).Uint64()), oracle.Mod(w.Pre), oracle.Mod(w.Post), cs)
}

// FreeStart finds a start index with batch consecutive empty leaves: the append position,
// or (tape permitting) a hole.
func (w *World) FreeStart(t *tape.Tape, batch int) (uint64, bool) {
	fits := func(s uint64) bool {
		if s+uint64(batch) > w.Size {
			return false
		}
		for i := 0; i < batch; i++ {
			if w.Model.Get(s+uint64(i)).Sign() != 0 {
				return false
			}
		}
		return true
	}
	var cands []uint64
	if fits(w.Next) {
		cands = append(cands, w.Next)
	}
	for _, ix := range w.Written {
		if fits(ix) {
			cands = append(cands, ix)
		}
	}
	if w.Size >= uint64(batch) && fits(w.Size-uint64(batch)) {
		cands = append(cands, w.Size-uint64(batch))
	}
	// arbitrary positions (mixed direction bits at every level), not only the append position and the ends
	if w.Size > uint64(batch) {
		for k := 0; k < 2; k++ {
			s := (uint64(t.U32())<<20 ^ uint64(t.U32())) % (w.Size - uint64(batch) + 1)
			if fits(s) {
				cands = append(cands, s)
			}
		}
	}
	if len(cands) == 0 {
		return 0, false
	}
	return cands[t.Pick(len(cands))], true
}

// InsertionFault is one entry of the adversary catalogue. It rewrites an honest witness; the
// oracle, not the fault, decides whether the result is still valid.
type InsertionFault struct {
	Name  string
	Apply func(t *tape.Tape, w *World, hw *oracle.InsertionWitness) *oracle.InsertionWitness
	// Hints lists the forged-hint strategies worth trying against this fault.
	Hints func(w *World, bw *oracle.InsertionWitness) []*HintStrategy
}

func cloneIns(w *oracle.InsertionWitness) *oracle.InsertionWitness {
	c := &oracle.InsertionWitness{InputHash: new(big.Int).Set(w.InputHash), Start: new(big.Int).Set(w.Start),
		Pre: new(big.Int).Set(w.Pre), Post: new(big.Int).Set(w.Post)}
	for _, x := range w.Comms {
		c.Comms = append(c.Comms, new(big.Int).Set(x))
	}
	for _, p := range w.Paths {
		var q []*big.Int
		for _, x := range p {
			q = append(q, new(big.Int).Set(x))
		}
		c.Paths = append(c.Paths, q)
	}
	return c
}

func min64(a, b uint64) uint64 {
	if a < b {
		return a
	}
	return b
}

func pow2(n int) *big.Int { return new(big.Int).Lsh(big.NewInt(1), uint(n)) }

func idxHints(depth int) []*HintStrategy {
	return []*HintStrategy{Overflow(depth), Truncate(depth), NonBoolean(depth)}
}

// InsertionFaults is the catalogue of section 6.C01 (hash-binding faults live in C03's list).
var InsertionFaults = []InsertionFault{
	{Name: "none"},
	{Name: "commitment-plus-r", Apply: func(t *tape.Tape, w *World, hw *oracle.InsertionWitness) *oracle.InsertionWitness {
		// same field element, other integer: must stay valid
		b := cloneIns(hw)
		i := t.Pick(len(b.Comms))
		b.Comms[i].Add(b.Comms[i], oracle.R)
		return b
	}},
	{Name: "path-element-plus-r", Apply: func(t *tape.Tape, w *World, hw *oracle.InsertionWitness) *oracle.InsertionWitness {
		b := cloneIns(hw)
		i := t.Pick(len(b.Paths))
		j := t.Pick(len(b.Paths[i]))
		b.Paths[i][j].Add(b.Paths[i][j], oracle.R)
		return b
	}},
	{Name: "stale-path-no-sequential-update", Apply: func(t *tape.Tape, w *World, hw *oracle.InsertionWitness) *oracle.InsertionWitness {
		b := cloneIns(hw)
		start := hw.Start.Uint64()
		for i := range b.Paths {
			b.Paths[i] = w.Model.Path(start + uint64(i))
		}
		return b
	}},
	{Name: "stale-path-from-earlier-state", Apply: func(t *tape.Tape, w *World, hw *oracle.InsertionWitness) *oracle.InsertionWitness {
		if len(w.Snaps) == 0 {
			return nil
		}
		old := w.Snaps[t.Pick(len(w.Snaps))]
		b := cloneIns(hw)
		i := t.Pick(len(b.Paths))
		b.Paths[i] = old.Path(hw.Start.Uint64() + uint64(i))
		return b
	}},
	{Name: "path-of-different-leaf", Apply: func(t *tape.Tape, w *World, hw *oracle.InsertionWitness) *oracle.InsertionWitness {
		b := cloneIns(hw)
		i := t.Pick(len(b.Paths))
		other := (hw.Start.Uint64() + uint64(i)) ^ (uint64(1) << uint(t.Draw(w.Depth)))
		b.Paths[i] = w.Model.Path(other % w.Size)
		return b
	}},
	{Name: "sibling-corrupted", Apply: func(t *tape.Tape, w *World, hw *oracle.InsertionWitness) *oracle.InsertionWitness {
		b := cloneIns(hw)
		i := t.Pick(len(b.Paths))
		l := t.Pick(w.Depth)
		switch t.Draw(4) {
		case 0:
			b.Paths[i][l].Add(b.Paths[i][l], big.NewInt(1))
		case 1:
			b.Paths[i][l].Sub(b.Paths[i][l], big.NewInt(1))
			b.Paths[i][l].Mod(b.Paths[i][l], oracle.R)
		case 2:
			b.Paths[i][l] = t.BigBelow(oracle.R)
		default:
			l2 := t.Pick(w.Depth)
			b.Paths[i][l], b.Paths[i][l2] = b.Paths[i][l2], b.Paths[i][l]
		}
		return b
	}},
	{Name: "non-boolean-direction-digit-with-matching-sibling", Apply: func(t *tape.Tape, w *World, hw *oracle.InsertionWitness) *oracle.InsertionWitness {
		// An algebraic attack on the conditional swap of a Merkle round. If a direction value b is not forced to be
		// a bit, a round computes (left, right) = (cur + b(sib-cur), sib - b(sib-cur)). At the leaf level of the
		// emptiness check cur = 0, so for ANY occupied pair of leaves (L, R) with R = L(1-m)/m the choice
		// sib = L/m, b = m opens that pair as if it held an empty leaf. Identity commitments are chosen by users, so
		// such a pair is a legal history. The index whose digits are (m, bits of the pair) is 2*pair + m: with
		// m = batch+1 the honest slots of the batch fill the leaves after the pair and the last slot overwrites the
		// pair's parent. Needs the forged digit vector (Planted) to be returned by the decomposition hint.
		B := len(hw.Comms)
		m := int64(B + 1)
		k := (w.Next + 1) / 2
		if 2*k+uint64(B) >= w.Size || w.Depth < 2 {
			return nil
		}
		L := RandomCommitment(t)
		if L.Sign() == 0 {
			L = big.NewInt(7)
		}
		minv := new(big.Int).ModInverse(big.NewInt(m), oracle.R)
		sib0 := oracle.Mod(new(big.Int).Mul(L, minv))
		Rv := oracle.Mod(new(big.Int).Sub(sib0, L)) // L/m - L = L(1-m)/m
		w.Snapshot()
		w.Model.Set(2*k, L)
		w.Model.Set(2*k+1, Rv)
		w.Written = append(w.Written, 2*k, 2*k+1)
		w.Next = 2*k + 2
		st := w.Model.Clone()
		b := &oracle.InsertionWitness{Start: new(big.Int).SetUint64(2*k + 2), Pre: st.Root(), Comms: hw.Comms}
		for i := 0; i < B-1; i++ {
			idx := 2*k + 2 + uint64(i)
			b.Paths = append(b.Paths, st.Path(idx))
			st.Set(idx, oracle.Mod(hw.Comms[i]))
		}
		path := st.Path(2 * k)
		path[0] = sib0
		b.Paths = append(b.Paths, path)
		c := oracle.Mod(hw.Comms[B-1])
		d := oracle.Mod(new(big.Int).Mul(big.NewInt(m), new(big.Int).Sub(sib0, c)))
		cur := oracle.H2(oracle.Mod(new(big.Int).Add(c, d)), oracle.Mod(new(big.Int).Sub(sib0, d)))
		for lvl := 1; lvl < w.Depth; lvl++ {
			if (k>>uint(lvl-1))&1 == 0 {
				cur = oracle.H2(cur, path[lvl])
			} else {
				cur = oracle.H2(path[lvl], cur)
			}
		}
		b.Post = cur
		RehashInsertion(b)
		forgedIdx := new(big.Int).SetUint64(2*k + uint64(B) + 1)
		digits := append([]*big.Int{big.NewInt(m)}, digitsOf(new(big.Int).SetUint64(k), w.Depth-1)...)
		w.Planted = ExplicitDigits("nbits-direction-digit-"+big.NewInt(m).String()+"-with-matching-sibling", w.Depth, forgedIdx, digits)
		return b
	}, Hints: func(w *World, bw *oracle.InsertionWitness) []*HintStrategy { return []*HintStrategy{w.Planted} }},
	{Name: "target-leaf-occupied", Apply: func(t *tape.Tape, w *World, hw *oracle.InsertionWitness) *oracle.InsertionWitness {
		occ := w.occupied()
		if len(occ) == 0 {
			return nil
		}
		tgt := occ[t.Pick(len(occ))]
		batch := len(hw.Comms)
		// place the batch so that slot j lands on the occupied leaf
		j := uint64(t.Pick(batch))
		if tgt < j || tgt-j+uint64(batch) > w.Size {
			j = 0
			if tgt+uint64(batch) > w.Size {
				return nil
			}
		}
		start := tgt - j
		// the adversary pretends the leaves are empty: genuine sibling paths, sequentially updated as if written
		st := w.Model.Clone()
		b := &oracle.InsertionWitness{Start: new(big.Int).SetUint64(start), Pre: new(big.Int).Set(hw.Pre), Comms: hw.Comms}
		for i, c := range hw.Comms {
			b.Paths = append(b.Paths, st.Path(start+uint64(i)))
			st.Set(start+uint64(i), oracle.Mod(c))
		}
		b.Post = st.Root()
		RehashInsertion(b)
		return b
	}},
	{Name: "batch-straddles-end-of-tree", Apply: func(t *tape.Tape, w *World, hw *oracle.InsertionWitness) *oracle.InsertionWitness {
		batch := len(hw.Comms)
		if batch < 2 {
			return nil
		}
		over := 1 + t.Draw(batch-1) // slots past the end
		start := w.Size - uint64(batch-over)
		st := w.Model.Clone()
		b := &oracle.InsertionWitness{Start: new(big.Int).SetUint64(start), Pre: st.Root(), Comms: hw.Comms}
		for i, c := range hw.Comms {
			idx := (start + uint64(i)) % w.Size // wraps onto leaf 0.. which may well be empty
			b.Paths = append(b.Paths, st.Path(idx))
			if st.Get(idx).Sign() == 0 {
				st.Set(idx, oracle.Mod(c))
			}
		}
		b.Post = st.Root()
		RehashInsertion(b)
		return b
	}, Hints: func(w *World, bw *oracle.InsertionWitness) []*HintStrategy { return idxHints(w.Depth) }},
	{Name: "start-aliases-empty-leaf-past-end", Apply: func(t *tape.Tape, w *World, hw *oracle.InsertionWitness) *oracle.InsertionWitness {
		// start = 2^depth * m + s: low bits address the genuinely empty leaves of the honest batch
		m := int64(1 + t.Draw(3))
		b := cloneIns(hw)
		b.Start.Add(b.Start, new(big.Int).Mul(pow2(w.Depth), big.NewInt(m)))
		RehashInsertion(b)
		return b
	}, Hints: func(w *World, bw *oracle.InsertionWitness) []*HintStrategy {
		hs := idxHints(w.Depth)
		if bw.Start.BitLen() > 32 {
			hs = append(hs, Overflow(32), Truncate(32))
		}
		return hs
	}},
	{Name: "start-at-or-above-2^32", Apply: func(t *tape.Tape, w *World, hw *oracle.InsertionWitness) *oracle.InsertionWitness {
		b := cloneIns(hw)
		switch t.Draw(3) {
		case 0:
			b.Start.Add(b.Start, pow2(32))
		case 1:
			b.Start.Add(b.Start, pow2(33+t.Draw(200)))
		default:
			b.Start.Add(b.Start, new(big.Int).Lsh(big.NewInt(int64(1+t.Draw(1000))), 32))
		}
		RehashInsertion(b)
		return b
	}, Hints: func(w *World, bw *oracle.InsertionWitness) []*HintStrategy {
		return append(idxHints(w.Depth), Overflow(32), Truncate(32), NonBoolean(32))
	}},
	{Name: "start-wraps-around-field-order", Apply: func(t *tape.Tape, w *World, hw *oracle.InsertionWitness) *oracle.InsertionWitness {
		// start = r - j with j in 1..batch: start+i passes through 0 inside the batch
		batch := len(hw.Comms)
		j := 1 + t.Draw(batch)
		start := new(big.Int).Sub(oracle.R, big.NewInt(int64(j)))
		st := w.Model.Clone()
		b := &oracle.InsertionWitness{Start: start, Pre: st.Root(), Comms: hw.Comms}
		for i, c := range hw.Comms {
			fi := new(big.Int).Add(start, big.NewInt(int64(i)))
			fi.Mod(fi, oracle.R)
			idx := new(big.Int).And(fi, new(big.Int).SetUint64(w.Size-1)).Uint64()
			b.Paths = append(b.Paths, st.Path(idx))
			if st.Get(idx).Sign() == 0 {
				st.Set(idx, oracle.Mod(c))
			}
		}
		b.Post = st.Root()
		RehashInsertion(b)
		return b
	}, Hints: func(w *World, bw *oracle.InsertionWitness) []*HintStrategy {
		return append(idxHints(w.Depth), Overflow(32), Truncate(32))
	}},
	{Name: "post-root-wrong", Apply: func(t *tape.Tape, w *World, hw *oracle.InsertionWitness) *oracle.InsertionWitness {
		b := cloneIns(hw)
		switch t.Draw(5) {
		case 0:
			b.Post = new(big.Int).Set(hw.Pre)
		case 1:
			// root after a prefix of the batch
			k := t.Draw(len(hw.Comms))
			st := w.Model.Clone()
			for i := 0; i < k; i++ {
				st.Set(hw.Start.Uint64()+uint64(i), oracle.Mod(hw.Comms[i]))
			}
			b.Post = st.Root()
		case 2:
			b.Post = t.BigBelow(oracle.R)
		case 3:
			b.Post.Add(b.Post, big.NewInt(1))
			b.Post.Mod(b.Post, oracle.R)
		default:
			// root for a different commitment vector
			st := w.Model.Clone()
			for i := range hw.Comms {
				st.Set(hw.Start.Uint64()+uint64(i), new(big.Int).Add(oracle.Mod(hw.Comms[i]), big.NewInt(1)))
			}
			b.Post = st.Root()
		}
		RehashInsertion(b)
		return b
	}},
	{Name: "commitments-swapped-between-slots", Apply: func(t *tape.Tape, w *World, hw *oracle.InsertionWitness) *oracle.InsertionWitness {
		if len(hw.Comms) < 2 {
			return nil
		}
		b := cloneIns(hw)
		i := t.Pick(len(b.Comms))
		j := (i + 1 + t.Draw(len(b.Comms)-1)) % len(b.Comms)
		b.Comms[i], b.Comms[j] = b.Comms[j], b.Comms[i]
		RehashInsertion(b)
		return b
	}},
	{Name: "commitment-changed-post-kept", Apply: func(t *tape.Tape, w *World, hw *oracle.InsertionWitness) *oracle.InsertionWitness {
		b := cloneIns(hw)
		i := t.Pick(len(b.Comms))
		switch t.Draw(3) {
		case 0:
			b.Comms[i] = big.NewInt(0)
		case 1:
			b.Comms[i].Add(b.Comms[i], big.NewInt(1))
		default:
			b.Comms[i] = t.BigBelow(oracle.R)
		}
		RehashInsertion(b)
		return b
	}},
	{Name: "pre-root-of-earlier-state", Apply: func(t *tape.Tape, w *World, hw *oracle.InsertionWitness) *oracle.InsertionWitness {
		if len(w.Snaps) == 0 {
			return nil
		}
		b := cloneIns(hw)
		b.Pre = w.Snaps[t.Pick(len(w.Snaps))].Root()
		RehashInsertion(b)
		return b
	}},
	{Name: "replay-valid-batch-of-earlier-state", Apply: func(t *tape.Tape, w *World, hw *oracle.InsertionWitness) *oracle.InsertionWitness {
		// a batch that was valid against an earlier state stays *circuit*-valid (the circuit
		// has no notion of "current"): the contract refuses it because pre != its root.
		if len(w.Snaps) == 0 {
			return nil
		}
		old := w.Snaps[t.Pick(len(w.Snaps))]
		s := hw.Start.Uint64()
		for i := range hw.Comms {
			if s+uint64(i) >= w.Size || old.Get(s+uint64(i)).Sign() != 0 {
				return nil
			}
		}
		return HonestInsertion(old, s, hw.Comms)
	}},
}

// ---------------------------------------------------------------------------------------
// Deletion

// HonestDeletion builds a valid batch over the state. Indices >= 2^depth are padding slots
// and receive the given filler item and path.
func HonestDeletion(state *oracle.Tree, indices []uint64, filler func(slot int) (*big.Int, []*big.Int)) *oracle.DeletionWitness {
	st := state.Clone()
	size := uint64(1) << uint(state.Depth)
	w := &oracle.DeletionWitness{Pre: st.Root()}
	for i, ix := range indices {
		w.Indices = append(w.Indices, new(big.Int).SetUint64(ix))
		if ix >= size {
			it, p := filler(i)
			w.Items = append(w.Items, it)
			w.Paths = append(w.Paths, p)
			continue
		}
		w.Items = append(w.Items, new(big.Int).Set(st.Get(ix)))
		w.Paths = append(w.Paths, st.Path(ix))
		st.Set(ix, big.NewInt(0))
	}
	w.Post = st.Root()
	RehashDeletion(w)
	return w
}

func RehashDeletion(w *oracle.DeletionWitness) {
	ix := make([]uint32, len(w.Indices))
	for i := range ix {
		v := oracle.Mod(w.Indices[i])
		ix[i] = uint32(new(big.Int).And(v, big.NewInt(0xffffffff)).Uint64())
	}
	w.InputHash = oracle.DeletionHash(ix, oracle.Mod(w.Pre), oracle.Mod(w.Post))
}

func cloneDel(w *oracle.DeletionWitness) *oracle.DeletionWitness {
	c := &oracle.DeletionWitness{InputHash: new(big.Int).Set(w.InputHash), Pre: new(big.Int).Set(w.Pre), Post: new(big.Int).Set(w.Post)}
	for _, x := range w.Indices {
		c.Indices = append(c.Indices, new(big.Int).Set(x))
	}
	for _, x := range w.Items {
		c.Items = append(c.Items, new(big.Int).Set(x))
	}
	for _, p := range w.Paths {
		var q []*big.Int
		for _, x := range p {
			q = append(q, new(big.Int).Set(x))
		}
		c.Paths = append(c.Paths, q)
	}
	return c
}

// DeletionPlan is the honest sequencer's choice of slots.
type DeletionPlan struct {
	Indices []uint64
	Kinds   []string // occupied | duplicate | already-empty | padding
}

// PlanDeletion draws an honest batch: occupied leaves, duplicates, already-empty leaves and
// padding slots in tape-chosen proportion.
func (w *World) PlanDeletion(t *tape.Tape, batch int) DeletionPlan {
	var p DeletionPlan
	occ := w.occupied()
	style := t.Weighted(5, 2, 1, 1) // mixed | all distinct occupied | all padding | all empty
	for i := 0; i < batch; i++ {
		kind := 0
		switch style {
		case 0:
			kind = t.Weighted(5, 2, 2, 3)
		case 1:
			kind = 0
		case 2:
			kind = 3
		default:
			kind = 2
		}
		switch kind {
		case 0:
			if len(occ) > 0 {
				k := t.Pick(len(occ))
				p.Indices = append(p.Indices, occ[k])
				p.Kinds = append(p.Kinds, "occupied")
				occ = append(occ[:k:k], occ[k+1:]...)
				continue
			}
			fallthrough
		case 2:
			var ix uint64
			if w.Depth <= 16 {
				ix = uint64(t.Draw(int(w.Size)))
			} else {
				ix = (uint64(t.U32())<<8 ^ uint64(t.U32())) % w.Size
			}
			k := "already-empty"
			if w.Model.Get(ix).Sign() != 0 {
				k = "occupied"
				for j, o := range occ {
					if o == ix {
						occ = append(occ[:j:j], occ[j+1:]...)
						break
					}
				}
			}
			for _, prev := range p.Indices {
				if prev == ix {
					k = "duplicate"
				}
			}
			p.Indices = append(p.Indices, ix)
			p.Kinds = append(p.Kinds, k)
		case 1:
			if len(p.Indices) > 0 {
				prev := p.Indices[t.Pick(len(p.Indices))]
				if prev < w.Size {
					p.Indices = append(p.Indices, prev)
					p.Kinds = append(p.Kinds, "duplicate")
					continue
				}
			}
			fallthrough
		default:
			// padding: any index in [2^depth, 2^(depth+1)), capped at 2^32-1
			span := w.Size
			off := uint64(0)
			switch t.Draw(3) {
			case 0:
				off = 0
			case 1:
				off = span - 1
			default:
				if span <= 1<<30 {
					off = uint64(t.Draw(int(span)))
				} else {
					off = uint64(t.U32()) % span
				}
			}
			ix := w.Size + off
			if ix > 0xffffffff {
				ix = 0xffffffff
			}
			p.Indices = append(p.Indices, ix)
			p.Kinds = append(p.Kinds, "padding")
		}
	}
	return p
}

// GarbageFiller fills padding slots with tape-chosen junk (the property says they are no-ops
// whatever their other fields contain).
func GarbageFiller(t *tape.Tape, depth int) func(int) (*big.Int, []*big.Int) {
	return func(int) (*big.Int, []*big.Int) {
		var it *big.Int
		switch t.Draw(3) {
		case 0:
			it = big.NewInt(0)
		case 1:
			it = t.BigBelow(oracle.R)
		default:
			it = new(big.Int).Sub(oracle.R, big.NewInt(1))
		}
		p := make([]*big.Int, depth)
		for i := range p {
			if t.Chance(1, 3) {
				p[i] = big.NewInt(0)
			} else {
				p[i] = t.BigBelow(oracle.R)
			}
		}
		return it, p
	}
}

type DeletionFault struct {
	Name  string
	Apply func(t *tape.Tape, w *World, hw *oracle.DeletionWitness) *oracle.DeletionWitness
	Hints func(w *World, bw *oracle.DeletionWitness) []*HintStrategy
}

func realSlots(w *World, hw *oracle.DeletionWitness) []int {
	var out []int
	for i, ix := range hw.Indices {
		if ix.IsUint64() && ix.Uint64() < w.Size {
			out = append(out, i)
		}
	}
	return out
}
func padSlots(w *World, hw *oracle.DeletionWitness) []int {
	var out []int
	for i, ix := range hw.Indices {
		if ix.IsUint64() && ix.Uint64() >= w.Size {
			out = append(out, i)
		}
	}
	return out
}

func invZeroHints() []*HintStrategy {
	return []*HintStrategy{InvZeroConst(0, "always-0"), InvZeroConst(1, "always-1"), InvZeroWrong()}
}

var DeletionFaults = []DeletionFault{
	{Name: "none"},
	{Name: "item-plus-r", Apply: func(t *tape.Tape, w *World, hw *oracle.DeletionWitness) *oracle.DeletionWitness {
		b := cloneDel(hw)
		i := t.Pick(len(b.Items))
		b.Items[i].Add(b.Items[i], oracle.R)
		return b
	}},
	{Name: "padding-slot-contents-rewritten", Apply: func(t *tape.Tape, w *World, hw *oracle.DeletionWitness) *oracle.DeletionWitness {
		ps := padSlots(w, hw)
		if len(ps) == 0 {
			return nil
		}
		b := cloneDel(hw)
		i := ps[t.Pick(len(ps))]
		b.Items[i], b.Paths[i] = GarbageFiller(t, w.Depth)(i)
		return b
	}},
	{Name: "wrong-item", Apply: func(t *tape.Tape, w *World, hw *oracle.DeletionWitness) *oracle.DeletionWitness {
		rs := realSlots(w, hw)
		if len(rs) == 0 {
			return nil
		}
		b := cloneDel(hw)
		i := rs[t.Pick(len(rs))]
		switch t.Draw(3) {
		case 0:
			b.Items[i].Add(b.Items[i], big.NewInt(1))
		case 1:
			if b.Items[i].Sign() == 0 {
				b.Items[i] = big.NewInt(1)
			} else {
				b.Items[i] = big.NewInt(0)
			}
		default:
			b.Items[i] = t.BigBelow(oracle.R)
		}
		return b
	}, Hints: func(w *World, bw *oracle.DeletionWitness) []*HintStrategy { return invZeroHints() }},
	{Name: "stale-path-from-earlier-state", Apply: func(t *tape.Tape, w *World, hw *oracle.DeletionWitness) *oracle.DeletionWitness {
		rs := realSlots(w, hw)
		if len(rs) == 0 || len(w.Snaps) == 0 {
			return nil
		}
		old := w.Snaps[t.Pick(len(w.Snaps))]
		b := cloneDel(hw)
		i := rs[t.Pick(len(rs))]
		b.Paths[i] = old.Path(hw.Indices[i].Uint64())
		if t.Chance(1, 2) {
			b.Items[i] = new(big.Int).Set(old.Get(hw.Indices[i].Uint64()))
		}
		return b
	}, Hints: func(w *World, bw *oracle.DeletionWitness) []*HintStrategy { return invZeroHints() }},
	{Name: "stale-path-no-sequential-update", Apply: func(t *tape.Tape, w *World, hw *oracle.DeletionWitness) *oracle.DeletionWitness {
		rs := realSlots(w, hw)
		if len(rs) < 2 {
			return nil
		}
		b := cloneDel(hw)
		for _, i := range rs {
			b.Paths[i] = w.Model.Path(hw.Indices[i].Uint64())
			b.Items[i] = new(big.Int).Set(w.Model.Get(hw.Indices[i].Uint64()))
		}
		return b
	}, Hints: func(w *World, bw *oracle.DeletionWitness) []*HintStrategy { return invZeroHints() }},
	{Name: "sibling-corrupted", Apply: func(t *tape.Tape, w *World, hw *oracle.DeletionWitness) *oracle.DeletionWitness {
		rs := realSlots(w, hw)
		if len(rs) == 0 {
			return nil
		}
		b := cloneDel(hw)
		i := rs[t.Pick(len(rs))]
		l := t.Pick(w.Depth)
		switch t.Draw(3) {
		case 0:
			b.Paths[i][l].Add(b.Paths[i][l], big.NewInt(1))
		case 1:
			b.Paths[i][l] = t.BigBelow(oracle.R)
		default:
			l2 := t.Pick(w.Depth)
			b.Paths[i][l], b.Paths[i][l2] = b.Paths[i][l2], b.Paths[i][l]
		}
		return b
	}, Hints: func(w *World, bw *oracle.DeletionWitness) []*HintStrategy { return invZeroHints() }},
	{Name: "padding-slot-but-post-as-if-deleted", Apply: func(t *tape.Tape, w *World, hw *oracle.DeletionWitness) *oracle.DeletionWitness {
		// turn a real slot into a padding slot (bit depth set) but keep the post-root of the real deletion
		rs := realSlots(w, hw)
		if len(rs) == 0 {
			return nil
		}
		b := cloneDel(hw)
		i := rs[t.Pick(len(rs))]
		if b.Items[i].Sign() == 0 {
			return nil // deleting an empty leaf changes nothing; the variant would be valid
		}
		b.Indices[i].Add(b.Indices[i], pow2(w.Depth))
		if b.Indices[i].BitLen() > 32 {
			return nil
		}
		RehashDeletion(b)
		return b
	}},
	{Name: "real-slot-but-post-unchanged", Apply: func(t *tape.Tape, w *World, hw *oracle.DeletionWitness) *oracle.DeletionWitness {
		b := cloneDel(hw)
		b.Post = new(big.Int).Set(hw.Pre)
		RehashDeletion(b)
		return b
	}},
	{Name: "post-root-wrong", Apply: func(t *tape.Tape, w *World, hw *oracle.DeletionWitness) *oracle.DeletionWitness {
		b := cloneDel(hw)
		if t.Chance(1, 2) {
			b.Post = t.BigBelow(oracle.R)
		} else {
			b.Post.Add(b.Post, big.NewInt(1))
			b.Post.Mod(b.Post, oracle.R)
		}
		RehashDeletion(b)
		return b
	}},
	{Name: "index-beyond-padding-range", Apply: func(t *tape.Tape, w *World, hw *oracle.DeletionWitness) *oracle.DeletionWitness {
		b := cloneDel(hw)
		i := t.Pick(len(b.Indices))
		low := new(big.Int).And(b.Indices[i], new(big.Int).SetUint64(w.Size*2-1))
		switch t.Draw(4) {
		case 0:
			b.Indices[i] = low.Add(low, pow2(w.Depth+1))
		case 1:
			b.Indices[i] = big.NewInt(0xffffffff)
			if w.Depth == 31 {
				return nil // 2^32-1 is a legal padding index at depth 31
			}
		case 2:
			b.Indices[i] = low.Add(low, pow2(32+t.Draw(100)))
		default:
			b.Indices[i] = new(big.Int).Sub(oracle.R, big.NewInt(int64(1+t.Draw(4))))
		}
		RehashDeletion(b)
		return b
	}, Hints: func(w *World, bw *oracle.DeletionWitness) []*HintStrategy {
		return []*HintStrategy{Overflow(w.Depth + 1), Truncate(w.Depth + 1), Overflow(32), Truncate(32), NonBoolean(w.Depth + 1)}
	}},
	{Name: "claim-skip-for-in-range-index", Apply: func(t *tape.Tape, w *World, hw *oracle.DeletionWitness) *oracle.DeletionWitness {
		// keep a real, occupied index but present garbage for it and leave the root alone
		rs := realSlots(w, hw)
		if len(rs) == 0 {
			return nil
		}
		i := rs[t.Pick(len(rs))]
		if hw.Items[i].Sign() == 0 {
			return nil
		}
		// rebuild the batch as if slot i were a no-op
		idx := make([]uint64, len(hw.Indices))
		for k := range idx {
			idx[k] = hw.Indices[k].Uint64()
		}
		st := w.Model.Clone()
		b := &oracle.DeletionWitness{Pre: st.Root()}
		for k, ix := range idx {
			b.Indices = append(b.Indices, new(big.Int).SetUint64(ix))
			if ix >= w.Size || k == i {
				it, p := GarbageFiller(t, w.Depth)(k)
				b.Items = append(b.Items, it)
				b.Paths = append(b.Paths, p)
				continue
			}
			b.Items = append(b.Items, new(big.Int).Set(st.Get(ix)))
			b.Paths = append(b.Paths, st.Path(ix))
			st.Set(ix, big.NewInt(0))
		}
		b.Post = st.Root()
		RehashDeletion(b)
		return b
	}, Hints: func(w *World, bw *oracle.DeletionWitness) []*HintStrategy {
		return append([]*HintStrategy{SkipBit(w.Depth), NonBoolean(w.Depth + 1)}, invZeroHints()...)
	}},
	{Name: "foreign-index-with-opening-of-an-empty-leaf", Apply: func(t *tape.Tape, w *World, hw *oracle.DeletionWitness) *oracle.DeletionWitness {
		// One slot names an index it has no business with (an occupied leaf that is never opened, an index beyond the
		// padding range, 2^32-1) and presents the genuine opening of some EMPTY leaf e with the empty value. The
		// decomposition hint is forged so that the path digits are those of e and the top ("skip") digit absorbs the
		// difference (index - e)/2^depth - a field element, not a bit. If the skip digit is not forced to be a bit,
		// the slot passes as a no-op.
		slot := t.Pick(len(hw.Indices))
		var e uint64
		found := false
		for try := 0; try < 24 && !found; try++ {
			e = uint64(t.BigBelow(new(big.Int).SetUint64(w.Size)).Uint64())
			found = w.Model.Get(e).Sign() == 0
		}
		if !found {
			return nil
		}
		var index uint64
		switch t.Draw(3) {
		case 0:
			inBatch := map[uint64]bool{}
			for _, ix := range hw.Indices {
				inBatch[ix.Uint64()] = true
			}
			var cand []uint64
			for _, o := range w.occupied() {
				if !inBatch[o] {
					cand = append(cand, o)
				}
			}
			if len(cand) == 0 {
				return nil
			}
			index = cand[t.Pick(len(cand))]
		case 1:
			index = 2*w.Size + uint64(t.Draw(int(min64(w.Size, 1<<20))))
			if index > 0xffffffff {
				index = 0xffffffff
			}
		default:
			index = 0xffffffff
		}
		st := w.Model.Clone()
		b := &oracle.DeletionWitness{Pre: st.Root()}
		for k := range hw.Indices {
			ix := hw.Indices[k].Uint64()
			if k == slot {
				b.Indices = append(b.Indices, new(big.Int).SetUint64(index))
				b.Items = append(b.Items, big.NewInt(0))
				b.Paths = append(b.Paths, st.Path(e))
				continue
			}
			b.Indices = append(b.Indices, new(big.Int).SetUint64(ix))
			if ix >= w.Size {
				b.Items = append(b.Items, new(big.Int).Set(hw.Items[k]))
				var q []*big.Int
				for _, v := range hw.Paths[k] {
					q = append(q, new(big.Int).Set(v))
				}
				b.Paths = append(b.Paths, q)
				continue
			}
			b.Items = append(b.Items, new(big.Int).Set(st.Get(ix)))
			b.Paths = append(b.Paths, st.Path(ix))
			st.Set(ix, big.NewInt(0))
		}
		b.Post = st.Root()
		RehashDeletion(b)
		top := new(big.Int).Sub(new(big.Int).SetUint64(index), new(big.Int).SetUint64(e))
		top.Mul(top, new(big.Int).ModInverse(pow2(w.Depth), oracle.R))
		top.Mod(top, oracle.R)
		digits := append(digitsOf(new(big.Int).SetUint64(e), w.Depth), top)
		w.Planted = ExplicitDigits("nbits-skip-digit-absorbs-foreign-position", w.Depth+1, new(big.Int).SetUint64(index), digits)
		return b
	}, Hints: func(w *World, bw *oracle.DeletionWitness) []*HintStrategy { return []*HintStrategy{w.Planted} }},
	{Name: "pre-root-of-earlier-state", Apply: func(t *tape.Tape, w *World, hw *oracle.DeletionWitness) *oracle.DeletionWitness {
		if len(w.Snaps) == 0 {
			return nil
		}
		b := cloneDel(hw)
		b.Pre = w.Snaps[t.Pick(len(w.Snaps))].Root()
		RehashDeletion(b)
		return b
	}, Hints: func(w *World, bw *oracle.DeletionWitness) []*HintStrategy { return invZeroHints() }},
	{Name: "duplicate-index-with-stale-second-slot", Apply: func(t *tape.Tape, w *World, hw *oracle.DeletionWitness) *oracle.DeletionWitness {
		rs := realSlots(w, hw)
		if len(rs) == 0 || len(hw.Indices) < 2 {
			return nil
		}
		src := rs[t.Pick(len(rs))]
		if hw.Items[src].Sign() == 0 {
			return nil
		}
		dst := (src + 1 + t.Draw(len(hw.Indices)-1)) % len(hw.Indices)
		if dst < src {
			return nil
		}
		b := cloneDel(hw)
		// second slot repeats the first one verbatim (item and path from before the first deletion)
		b.Indices[dst] = new(big.Int).Set(hw.Indices[src])
		b.Items[dst] = new(big.Int).Set(hw.Items[src])
		b.Paths[dst] = nil
		for _, x := range hw.Paths[src] {
			b.Paths[dst] = append(b.Paths[dst], new(big.Int).Set(x))
		}
		RehashDeletion(b)
		return b
	}, Hints: func(w *World, bw *oracle.DeletionWitness) []*HintStrategy { return invZeroHints() }},
}

func FaultNames() (ins, del []string) {
	for _, f := range InsertionFaults {
		ins = append(ins, f.Name)
	}
	for _, f := range DeletionFaults {
		del = append(del, f.Name)
	}
	return
}

func DescribeIns(w *oracle.InsertionWitness) string {
	return fmt.Sprintf("start=%s pre=%s post=%s comms=%d", w.Start.String(), w.Pre.Text(16), w.Post.Text(16), len(w.Comms))
}
func DescribeDel(w *oracle.DeletionWitness) string {
	s := ""
	for _, ix := range w.Indices {
		s += ix.String() + ","
	}
	return fmt.Sprintf("indices=[%s] pre=%s post=%s", s, w.Pre.Text(16), w.Post.Text(16))
}
