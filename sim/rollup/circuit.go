// Package rollup is World R: the real circuits (compiled R1CS, gnark solver), a dishonest
// prover (forged hint outputs, arbitrary witness values) and an independent constraint
// evaluator, driven against the contract model of package oracle.
package rollup

import (
	"fmt"
	"math/big"
	"sync"
	"sync/atomic"

	"github.com/consensys/gnark-crypto/ecc"
	"github.com/consensys/gnark-crypto/ecc/bn254/fr"
	"github.com/consensys/gnark/backend"
	"github.com/consensys/gnark/backend/hint"
	"github.com/consensys/gnark/constraint"
	cs_bn254 "github.com/consensys/gnark/constraint/bn254"
	"github.com/consensys/gnark/frontend"
	"github.com/consensys/gnark/std/math/bits"

	"verifsim/oracle"

	"worldcoin/gnark-mbu/prover"
)

const (
	Insertion = "insertion"
	Deletion  = "deletion"
)

// Circuit is one compiled constraint system of the repository.
type Circuit struct {
	Mode         string
	Depth, Batch int
	CS           *cs_bn254.R1CS
	raw          constraint.ConstraintSystem
}

func (c *Circuit) Raw() constraint.ConstraintSystem { return c.raw }
func (c *Circuit) Key() string                      { return fmt.Sprintf("%s/d%d/b%d", c.Mode, c.Depth, c.Batch) }

// Compile builds the R1CS through the repository's own Build functions.
func Compile(mode string, depth, batch int) (*Circuit, error) {
	var ccs constraint.ConstraintSystem
	var err error
	switch mode {
	case Insertion:
		ccs, err = prover.BuildR1CSInsertion(uint32(depth), uint32(batch))
	case Deletion:
		ccs, err = prover.BuildR1CSDeletion(uint32(depth), uint32(batch))
	default:
		return nil, fmt.Errorf("mode %q", mode)
	}
	if err != nil {
		return nil, err
	}
	r, ok := ccs.(*cs_bn254.R1CS)
	if !ok {
		return nil, fmt.Errorf("unexpected constraint system type %T", ccs)
	}
	return &Circuit{Mode: mode, Depth: depth, Batch: batch, CS: r, raw: ccs}, nil
}

// HintStrategy describes what the dishonest prover does with self-computed values.
// Forgeries are keyed by the *value* being decomposed (never by call order, which the
// parallel solver does not fix), so a strategy is a deterministic function.
type HintStrategy struct {
	Name string
	// Fired counts hint calls that actually returned forged output.
	Fired atomic.Int64
	// NBitsForge maps (nbits, value) to forged digits; nil result = honest.
	NBitsForge func(n int, v *big.Int) []*big.Int
	// InvZeroForge maps the input to a forged "inverse"; nil = honest.
	InvZeroForge func(v *big.Int) *big.Int
	// Generic forges any hint of the system (generic_forge.go).
	Generic *GenericForge
}

var Honest = &HintStrategy{Name: "honest"}

func (h *HintStrategy) config() backend.ProverConfig {
	opt, _ := backend.NewProverConfig()
	if h == nil || (h.NBitsForge == nil && h.InvZeroForge == nil && h.Generic == nil) {
		return opt
	}
	if h.Generic != nil {
		if honest, ok := opt.HintFunctions[h.Generic.ID]; ok {
			opt.HintFunctions[h.Generic.ID] = h.Generic.wrap(h, honest)
		}
	}
	if h.NBitsForge != nil {
		f := h.NBitsForge
		opt.HintFunctions[hint.UUID(bits.NBits)] = func(q *big.Int, in []*big.Int, out []*big.Int) error {
			if forged := f(len(out), in[0]); forged != nil && len(forged) == len(out) {
				h.Fired.Add(1)
				for i := range out {
					out[i].Mod(forged[i], q)
				}
				return nil
			}
			return bits.NBits(q, in, out)
		}
	}
	if h.InvZeroForge != nil {
		f := h.InvZeroForge
		opt.HintFunctions[hint.UUID(hint.InvZero)] = func(q *big.Int, in []*big.Int, out []*big.Int) error {
			if forged := f(in[0]); forged != nil {
				h.Fired.Add(1)
				out[0].Mod(forged, q)
				return nil
			}
			return hint.InvZero(q, in, out)
		}
	}
	return opt
}

func frEcc() *big.Int { return ecc.BN254.ScalarField() }

var solveMu sync.Mutex // the gnark solver is itself parallel; serialise per process

// Solve runs gnark's solver on the real system with the given hint strategy. It returns the
// full wire vector (also on failure: partial) and the solver's verdict.
func (c *Circuit) Solve(assignment frontend.Circuit, hs *HintStrategy) (fr.Vector, error) {
	w, err := frontend.NewWitness(assignment, ecc.BN254.ScalarField())
	if err != nil {
		return nil, fmt.Errorf("witness: %w", err)
	}
	v := w.Vector().(fr.Vector)
	n := len(c.CS.Constraints)
	a, b, cc := make(fr.Vector, n), make(fr.Vector, n), make(fr.Vector, n)
	solveMu.Lock()
	defer solveMu.Unlock()
	return c.CS.Solve(v, a, b, cc, hs.config())
}

// PublicInputs returns the number of public wires excluding the constant one.
func (c *Circuit) PublicInputs() int { return len(c.CS.Public) - 1 }

// Evaluate re-checks every constraint L*R == O on a full wire vector with our own
// arithmetic over the constraint list (independent of the solver's bookkeeping).
func (c *Circuit) Evaluate(wires fr.Vector) error {
	nb := len(c.CS.Public) + len(c.CS.Secret) + c.CS.NbInternalVariables
	if len(wires) != nb {
		return fmt.Errorf("wire vector has %d entries, system has %d wires", len(wires), nb)
	}
	var one fr.Element
	one.SetOne()
	if !wires[0].Equal(&one) {
		return fmt.Errorf("wire 0 is not one")
	}
	coeffs := c.CS.Coefficients
	eval := func(le constraint.LinearExpression) fr.Element {
		var acc, t fr.Element
		for _, term := range le {
			t.Mul(&coeffs[term.CoeffID()], &wires[term.WireID()])
			acc.Add(&acc, &t)
		}
		return acc
	}
	for i, r1c := range c.CS.Constraints {
		l, r, o := eval(r1c.L), eval(r1c.R), eval(r1c.O)
		var p fr.Element
		p.Mul(&l, &r)
		if !p.Equal(&o) {
			return fmt.Errorf("constraint %d unsatisfied", i)
		}
	}
	return nil
}

// Verdict of one attempt on the real system.
type Verdict struct {
	Accepted bool   // solver solved AND independent evaluator agrees
	SolverOK bool   // solver's own verdict
	EvalOK   bool   // independent evaluation of the returned wires
	Err      string // solver error text (not logged: contains constraint ids only)
	Public   []*big.Int
}

// Attempt solves and cross-checks. A disagreement between solver and evaluator is reported
// through the two flags; callers treat it as a machinery-relevant violation of its own class.
func (c *Circuit) Attempt(assignment frontend.Circuit, hs *HintStrategy) Verdict {
	wires, err := c.Solve(assignment, hs)
	v := Verdict{SolverOK: err == nil}
	if err != nil {
		v.Err = err.Error()
	}
	if wires != nil && err == nil {
		v.EvalOK = c.Evaluate(wires) == nil
		for i := 1; i < len(c.CS.Public); i++ {
			v.Public = append(v.Public, wires[i].BigInt(new(big.Int)))
		}
	}
	v.Accepted = v.SolverOK && v.EvalOK
	return v
}

// ---------------------------------------------------------------------------------------
// Assignments

func vars(xs []*big.Int) []frontend.Variable {
	out := make([]frontend.Variable, len(xs))
	for i, x := range xs {
		out[i] = new(big.Int).Set(x)
	}
	return out
}

func vars2(xs [][]*big.Int) [][]frontend.Variable {
	out := make([][]frontend.Variable, len(xs))
	for i := range xs {
		out[i] = vars(xs[i])
	}
	return out
}

// AssignInsertion builds the circuit assignment directly (the typed parameter struct cannot
// carry a start index >= 2^32 or values >= r; a witness can).
func AssignInsertion(w *oracle.InsertionWitness) *prover.InsertionMbuCircuit {
	return &prover.InsertionMbuCircuit{
		InputHash:    new(big.Int).Set(w.InputHash),
		StartIndex:   new(big.Int).Set(w.Start),
		PreRoot:      new(big.Int).Set(w.Pre),
		PostRoot:     new(big.Int).Set(w.Post),
		IdComms:      vars(w.Comms),
		MerkleProofs: vars2(w.Paths),
	}
}

func AssignDeletion(w *oracle.DeletionWitness) *prover.DeletionMbuCircuit {
	return &prover.DeletionMbuCircuit{
		InputHash:       new(big.Int).Set(w.InputHash),
		DeletionIndices: vars(w.Indices),
		PreRoot:         new(big.Int).Set(w.Pre),
		PostRoot:        new(big.Int).Set(w.Post),
		IdComms:         vars(w.Items),
		MerkleProofs:    vars2(w.Paths),
	}
}

// ---------------------------------------------------------------------------------------
// Hint forgeries

func digitsOf(v *big.Int, n int) []*big.Int {
	out := make([]*big.Int, n)
	for i := 0; i < n; i++ {
		out[i] = big.NewInt(int64(v.Bit(i)))
	}
	return out
}

// AltRep forges the n-bit decomposition of exactly the given values as value + k*r.
func AltRep(targets map[string]int, nbits int) *HintStrategy {
	return &HintStrategy{Name: "nbits-alt-representative", NBitsForge: func(n int, v *big.Int) []*big.Int {
		if n != nbits {
			return nil
		}
		k, ok := targets[v.String()]
		if !ok {
			return nil
		}
		alt := new(big.Int).Mul(oracle.R, big.NewInt(int64(k)))
		alt.Add(alt, v)
		if alt.BitLen() > n {
			return nil
		}
		return digitsOf(alt, n)
	}}
}

// ExplicitDigits answers the n-digit decomposition of exactly the value v with the given digits (any field
// elements); every other call stays honest. The digit vector belongs to a witness built for it.
func ExplicitDigits(name string, nbits int, v *big.Int, digits []*big.Int) *HintStrategy {
	key := v.String()
	return &HintStrategy{Name: name, NBitsForge: func(n int, x *big.Int) []*big.Int {
		if n != nbits || x.String() != key || len(digits) != n {
			return nil
		}
		return digits
	}}
}

// NonBoolean forges a decomposition whose weighted sum is right but which carries a digit 2
// (…,2,0,… instead of …,0,1,…), for every n-bit decomposition where that is possible.
func NonBoolean(nbits int) *HintStrategy {
	return &HintStrategy{Name: "nbits-non-boolean-digit", NBitsForge: func(n int, v *big.Int) []*big.Int {
		if nbits != 0 && n != nbits {
			return nil
		}
		d := digitsOf(v, n)
		for i := 0; i+1 < n; i++ {
			if d[i].Sign() == 0 && d[i+1].Sign() == 1 {
				d[i] = big.NewInt(2)
				d[i+1] = big.NewInt(0)
				return d
			}
		}
		return nil
	}}
}

// Overflow forges an n-bit decomposition of a value that needs more than n bits by putting
// the excess into the top digit (value = sum still holds over the integers mod r).
func Overflow(nbits int) *HintStrategy {
	return &HintStrategy{Name: "nbits-overflow-into-top-digit", NBitsForge: func(n int, v *big.Int) []*big.Int {
		if n != nbits || v.BitLen() <= n || n == 0 {
			return nil
		}
		d := digitsOf(v, n-1)
		top := new(big.Int).Rsh(v, uint(n-1))
		return append(d, top)
	}}
}

// Truncate forges an n-bit decomposition of a too-large value by dropping the high bits.
func Truncate(nbits int) *HintStrategy {
	return &HintStrategy{Name: "nbits-truncate-high-bits", NBitsForge: func(n int, v *big.Int) []*big.Int {
		if n != nbits || v.BitLen() <= n {
			return nil
		}
		return digitsOf(v, n)
	}}
}

// SkipBit forges the (depth+1)-bit decomposition of an in-range deletion index so that the
// skip bit reads 1: digits of index with top digit 1 and the excess 2^depth cancelled through
// a negative (mod r) low digit.
func SkipBit(depth int) *HintStrategy {
	return &HintStrategy{Name: "nbits-claim-skip-bit", NBitsForge: func(n int, v *big.Int) []*big.Int {
		if n != depth+1 || v.BitLen() > depth {
			return nil
		}
		d := digitsOf(v, n)
		d[depth] = big.NewInt(1)
		// cancel 2^depth in digit 0: d0 - 2^depth (mod r)
		neg := new(big.Int).Lsh(big.NewInt(1), uint(depth))
		neg.Sub(d[0], neg)
		neg.Mod(neg, oracle.R)
		d[0] = neg
		return d
	}}
}

// InvZeroConst answers every is-zero inverse with the same constant.
func InvZeroConst(c int64, name string) *HintStrategy {
	return &HintStrategy{Name: "invzero-" + name, InvZeroForge: func(v *big.Int) *big.Int { return big.NewInt(c) }}
}

// InvZeroWrong answers with inverse+1 for non-zero inputs and 1 for zero.
func InvZeroWrong() *HintStrategy {
	return &HintStrategy{Name: "invzero-off-by-one", InvZeroForge: func(v *big.Int) *big.Int {
		if v.Sign() == 0 {
			return big.NewInt(1)
		}
		inv := new(big.Int).ModInverse(v, oracle.R)
		return inv.Add(inv, big.NewInt(1))
	}}
}
