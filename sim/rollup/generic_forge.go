package rollup

import (
	"errors"
	"math/big"
	"sort"
	"strings"
	"sync"

	"github.com/consensys/gnark-crypto/ecc/bn254/fr"
	"github.com/consensys/gnark/backend"
	"github.com/consensys/gnark/backend/hint"
	"github.com/consensys/gnark/constraint"
	cs_bn254 "github.com/consensys/gnark/constraint/bn254"
	"github.com/consensys/gnark/frontend"
)

// The generic dishonest prover. The forgeries in circuit.go know the two hints the pinned tree uses
// (bit decomposition, inverse-or-zero). The properties, however, speak of "every choice a dishonest prover
// can make for self-computed values" - whatever hints the circuits use today. GenericForge therefore works
// on ANY hint the compiled system references: it calls the honest function, shifts one output by a small
// delta and moves every other output of the same call by c*delta for a coefficient c from a small set
// (0, +-1/2, +-1, +-2) - the family of forgeries that keeps one linear relation between the outputs and
// their inputs intact, which is all an under-constrained hint (an output that is not range-checked, a
// relation asserted only modulo the field) needs. Because such a forgery changes what the circuit hashes,
// the forger also frees the public input: ForgeWithFreePublicInput reads, from the constraint that fails
// first, the value the public wire would have to take, and presents that value instead.

type GenericForge struct {
	ID    hint.ID
	Match string // "" = every call of the hint; otherwise only calls whose inputs render to this key
	Out   int    // output shifted by delta
	Delta int    // 0: flip as a bit (delta = 1-2h), 1: +1, 2: -1
	Comp  int    // index into compCoeff: every other output moves by compCoeff*delta
}

// HintUse is what an honest solve shows about one hint of the system.
type HintUse struct {
	ID      hint.ID
	Name    string
	Outputs int
	Keys    []string // distinct input tuples, sorted
}

func hintKey(in []*big.Int) string {
	var sb strings.Builder
	for _, v := range in {
		sb.WriteString(v.Text(16))
		sb.WriteByte(',')
	}
	return sb.String()
}

func compCoeff(i int, q *big.Int) *big.Int {
	inv2 := new(big.Int).ModInverse(big.NewInt(2), q)
	switch i % 7 {
	case 1:
		return new(big.Int).Sub(q, inv2)
	case 2:
		return inv2
	case 3:
		return new(big.Int).Sub(q, big.NewInt(1))
	case 4:
		return big.NewInt(1)
	case 5:
		return new(big.Int).Sub(q, big.NewInt(2))
	case 6:
		return big.NewInt(2)
	}
	return big.NewInt(0)
}

func (g *GenericForge) wrap(h *HintStrategy, honest hint.Function) hint.Function {
	return func(q *big.Int, in []*big.Int, out []*big.Int) error {
		if err := honest(q, in, out); err != nil {
			return err
		}
		if g.Out >= len(out) || (g.Match != "" && hintKey(in) != g.Match) {
			return nil
		}
		delta := big.NewInt(1)
		switch g.Delta {
		case 0:
			delta = new(big.Int).Sub(big.NewInt(1), new(big.Int).Lsh(out[g.Out], 1)) // 1-2h: 0<->1 for a bit
		case 2:
			delta = big.NewInt(-1)
		}
		c := compCoeff(g.Comp, q)
		for j := range out {
			d := new(big.Int).Set(delta)
			if j != g.Out {
				d.Mul(d, c)
			}
			out[j].Add(out[j], d)
			out[j].Mod(out[j], q)
		}
		h.Fired.Add(1)
		return nil
	}
}

// HintUses solves honestly and records, for every hint function the system references, how many outputs a
// call has and which distinct input tuples occur.
func (c *Circuit) HintUses(assignment frontend.Circuit) ([]HintUse, error) {
	opt, _ := backend.NewProverConfig()
	var mu sync.Mutex
	type rec struct {
		nout int
		keys map[string]bool
	}
	recs := map[hint.ID]*rec{}
	for id := range c.CS.MHintsDependencies {
		honest, ok := opt.HintFunctions[id]
		if !ok {
			return nil, errors.New("hint " + c.CS.MHintsDependencies[id] + " is not registered")
		}
		r := &rec{keys: map[string]bool{}}
		recs[id] = r
		opt.HintFunctions[id] = func(q *big.Int, in []*big.Int, out []*big.Int) error {
			mu.Lock()
			r.nout = len(out)
			if len(r.keys) < 4096 {
				r.keys[hintKey(in)] = true
			}
			mu.Unlock()
			return honest(q, in, out)
		}
	}
	if _, err := c.solveWith(assignment, opt); err != nil {
		return nil, err
	}
	var uses []HintUse
	for id, r := range recs {
		u := HintUse{ID: id, Name: c.CS.MHintsDependencies[id], Outputs: r.nout}
		for k := range r.keys {
			u.Keys = append(u.Keys, k)
		}
		sort.Strings(u.Keys)
		uses = append(uses, u)
	}
	sort.Slice(uses, func(i, j int) bool { return uses[i].Name < uses[j].Name })
	return uses, nil
}

func (c *Circuit) solveWith(assignment frontend.Circuit, opt backend.ProverConfig) (fr.Vector, error) {
	w, err := frontend.NewWitness(assignment, frEcc())
	if err != nil {
		return nil, err
	}
	v := w.Vector().(fr.Vector)
	n := len(c.CS.Constraints)
	a, b, cc := make(fr.Vector, n), make(fr.Vector, n), make(fr.Vector, n)
	solveMu.Lock()
	defer solveMu.Unlock()
	return c.CS.Solve(v, a, b, cc, opt)
}

// publicValueSatisfying returns the value public wire 1 must take for constraint cid to hold, all other
// wires being as in the (partial) vector; nil when the wire does not occur there or cannot be isolated.
func (c *Circuit) publicValueSatisfying(cid int, wires fr.Vector) *big.Int {
	if cid < 0 || cid >= len(c.CS.Constraints) {
		return nil
	}
	r1c := c.CS.Constraints[cid]
	coeffs := c.CS.Coefficients
	split := func(le constraint.LinearExpression) (rest, coef fr.Element, has bool) {
		var t fr.Element
		for _, term := range le {
			if term.WireID() == 1 {
				coef.Add(&coef, &coeffs[term.CoeffID()])
				has = true
				continue
			}
			t.Mul(&coeffs[term.CoeffID()], &wires[term.WireID()])
			rest.Add(&rest, &t)
		}
		return
	}
	l0, la, lh := split(r1c.L)
	r0, ra, rh := split(r1c.R)
	o0, oa, oh := split(r1c.O)
	n := 0
	for _, h := range []bool{lh, rh, oh} {
		if h {
			n++
		}
	}
	if n != 1 {
		return nil
	}
	var p, t fr.Element
	switch {
	case oh: // L*R = oa*p + o0
		if oa.IsZero() {
			return nil
		}
		t.Mul(&l0, &r0)
		t.Sub(&t, &o0)
		p.Div(&t, &oa)
	case lh: // (la*p + l0)*R = O
		if la.IsZero() || r0.IsZero() {
			return nil
		}
		t.Div(&o0, &r0)
		t.Sub(&t, &l0)
		p.Div(&t, &la)
	default: // L*(ra*p + r0) = O
		if ra.IsZero() || l0.IsZero() {
			return nil
		}
		t.Div(&o0, &l0)
		t.Sub(&t, &r0)
		p.Div(&t, &ra)
	}
	return p.BigInt(new(big.Int))
}

// ForgeWithFreePublicInput lets the forger choose the public input after the fact: solve with the given
// public value; if a constraint involving the public wire fails, present the value that constraint asks for
// and solve again. It returns the verdict of the last attempt and the public value used in it.
func (c *Circuit) ForgeWithFreePublicInput(assign func(pub *big.Int) frontend.Circuit, pub *big.Int, hs *HintStrategy) (Verdict, *big.Int) {
	wires, err := c.Solve(assign(pub), hs)
	if err == nil {
		return c.Attempt(assign(pub), hs), pub
	}
	var ue *cs_bn254.UnsatisfiedConstraintError
	if !errors.As(err, &ue) || wires == nil {
		return Verdict{Err: err.Error()}, pub
	}
	p := c.publicValueSatisfying(ue.CID, wires)
	if p == nil {
		return Verdict{Err: err.Error()}, pub
	}
	return c.Attempt(assign(p), hs), p
}
