package service

import (
	"fmt"
	"runtime"
	"runtime/debug"
	"sync"

	"verifsim/engine"
	"verifsim/tape"

	"worldcoin/gnark-mbu/simyield"
)

// World L - "library under concurrent callers". The repository's library functions (input-hash
// helpers, proof and parameter codecs, the off-chain tree) are stated "for every parameter set / every
// proof / any history"; a service calls them from many goroutines at once. Here the nodes are caller
// tasks: each runs its own sequence of library calls on its own, unrelated arguments inside one synctest
// bubble, and the tape decides every hand-over between them at the yield points the instrumenter put
// before each statement of the library (the same seam World S uses). Each caller judges its own results
// against its own sequential oracle, so any influence of one caller on another is a violation of the
// caller's property. Runs execute on a single P, where P-local runtime state (sync.Pool's private slot) is
// shared by the interleaved tasks.

// CallerResult is what one caller reports: the first disagreement with its oracle, or a panic.
type CallerResult struct {
	Problem string
	Panic   string
}

// RunCallers interleaves the callers under a tape-drawn strategy and returns their results.
func RunCallers(t *tape.Tape, log *engine.EvLog, st *engine.Stats, callers []func() string) ([]CallerResult, *Sim, error) {
	return RunCallersWith([]int{StratUniform, StratSticky, StratPCT, StratStarve}, t, log, st, callers)
}

// RunCallersWith is RunCallers with the pool of strategies to draw from given by the check (a window of a few
// statements between two calls is found by few-preemption schedules far more often than by uniform ones).
func RunCallersWith(strategies []int, t *tape.Tape, log *engine.EvLog, st *engine.Stats, callers []func() string) ([]CallerResult, *Sim, error) {
	sim := NewSim(t, log, st)
	sim.MaxSteps = 20000
	sim.Configure(strategies)
	st.Count("runs_strategy_" + sim.StrategyName())
	// Always a single P: P-local runtime state (sync.Pool's private slot) is then one deterministic LIFO shared by
	// the interleaved tasks - the adversarial case, and the only one in which a run is a function of its tape
	// (on several Ps, which task finds whose pooled object depends on where the Go scheduler placed them).
	old := runtime.GOMAXPROCS(1)
	defer runtime.GOMAXPROCS(old)
	// sync.Pool contents survive from earlier runs of the process until the garbage collector drops them: two
	// collections empty every pool (primary and victim cache), and no collection runs while the callers do, so
	// what a caller finds in a pool is decided by this run's schedule alone.
	runtime.GC()
	runtime.GC()
	defer debug.SetGCPercent(debug.SetGCPercent(-1))
	res := make([]CallerResult, len(callers))
	var mu sync.Mutex
	err := sim.RunBubble(func() {
		var wg sync.WaitGroup
		for i, f := range callers {
			wg.Add(1)
			go func() {
				defer wg.Done()
				defer func() {
					if r := recover(); r != nil {
						buf := make([]byte, 8192)
						n := runtime.Stack(buf, false)
						mu.Lock()
						res[i].Panic = fmt.Sprintf("%v\n%s", r, buf[:n])
						mu.Unlock()
					}
				}()
				simyield.Y(fmt.Sprintf("caller:%d", i)) // first yield: a distinct site per caller names the task
				p := f()
				mu.Lock()
				res[i].Problem = p
				mu.Unlock()
			}()
		}
		for sim.Step < sim.MaxSteps && sim.StepOnce() {
		}
		sim.DrainTasks(100000)
		wg.Wait()
	})
	return res, sim, err
}
