package service

import (
	"bufio"
	"bytes"
	"encoding/json"
	"fmt"
	"io"
	"math/big"
	"net/http"
	"os"
	"reflect"
	"sort"
	"strconv"
	"strings"
	"sync/atomic"
	"time"
	"unsafe"

	"verifsim/gtier"
	"verifsim/simnet"

	"worldcoin/gnark-mbu/server"
	"worldcoin/gnark-mbu/simyield"
)

const (
	ProverAddr  = "p:1"
	MetricsAddr = "m:1"
)

// Expect is the reference verdict for one request, from the property text.
type Expect struct {
	Status int    // 200, 400, 405; 0 = no assertion on status beyond "a complete HTTP response or a closed connection"
	Code   string // malformed_body | proving_error | "" (not asserted)
	Grey   bool   // grey class: any 400 with either code, or 200 with a proof valid for Hash
}

type Response struct {
	Status int
	Body   []byte
	Header http.Header
}

type Request struct {
	Cycle  int
	Doc    map[string]any // the parameter document of a valid request (for building variants of it)
	ID     int
	Method string
	Kind   string
	Body   []byte
	Raw    []byte
	Hash   *big.Int // input hash of the batch in the body, when there is one
	Expect Expect
	// NoResponseOK: the client vanished before the response could reach it.
	NoResponseOK bool
	Resp         *Response
	QueuedAtStep int
	// HandlerSeen is set when a task was observed inside the handler for this request's connection.
	RespAtStep int
	Metrics    bool // request to the metrics endpoint
}

// ClientConn is one client connection script.
type ClientConn struct {
	// Cycle: the start/stop cycle (0-based) during which this connection is made
	Cycle     int
	ID        int
	Addr      string
	Reqs      []*Request
	Pipelined bool
	// Fragment plan for client->server delivery: 0 whole, 1 halves, 2 bytewise head then whole, 3 random chunks
	Frag int
	// CutAt >= 0: only this many bytes of the (last) request are ever sent; then Vanish decides how the client goes away.
	CutAt  int
	Vanish int // 0 none, 1 half-close (FIN), 2 reset
	// LeaveBeforeResponse: the client resets right after its request bytes were delivered.
	LeaveBeforeResponse bool
	StartStep           int // not dialled before this scheduler step

	conn          *simnet.Conn
	dialed        bool
	refused       bool
	sent          int // requests whose bytes have been queued
	got           int // responses parsed
	buf           []byte
	closed        bool
	vanished      bool
	bytesOut      int  // bytes queued so far
	headLeft      int  // bytewise deliveries left (Frag 2)
	scrapeBlocked bool // set by the priority-scrape phase
	blockedWhy    string
	// FreezeAt > 0: a slow uploader - once this many bytes have been delivered, nothing more is delivered until
	// the world thaws (the client is alive, just not sending for now). AfterFrozen: not dialled before every
	// slow uploader has reached its freeze point.
	FreezeAt    int
	AfterFrozen bool
	// AfterOthers: not dialled before every other connection without this flag has settled.
	AfterOthers bool
	Delivered   int   // client->server bytes delivered so far
	offsets     []int // start offset of each queued request in the client->server stream
	// DeliveredAtStop: Delivered at the moment the operator requested stop (-1: connection not dialled then)
	DeliveredAtStop []int
}

// HeadersDelivered reports whether request i's header block had been delivered once n bytes were.
func (c *ClientConn) HeadersDelivered(i, n int) bool {
	if i >= len(c.offsets) {
		return false
	}
	h := bytes.Index(c.Reqs[i].Raw, []byte("\r\n\r\n"))
	if h < 0 {
		return false
	}
	return n >= c.offsets[i]+h+4
}

type World struct {
	// Knobs: pre-drawn values (0 = leave the default) for configuration fields of server.Config that this
	// harness does not know by name - whatever tuning knobs (timeouts, limits, switches) the tree under test
	// offers today. Applied by reflection in field order when the operator builds the configuration;
	// KnobLog records what was set. Empty on a tree whose Config has only the three known fields.
	Knobs   []int
	KnobLog []string
	// slow-uploader phase (ClientConn.FreezeAt): Thawed once the frozen clients resume; BlockedByFrozen lists the
	// completely sent requests of other clients that were still unanswered when the system had gone quiet.
	Thawed             bool
	ThawAfter          int // seconds of fake-time quiet after which the slow uploaders resume (default 5, at most 12)
	FrozenPhaseReached bool
	BlockedByFrozen    []*Request
	Sim                *Sim
	Sys                *gtier.System
	Conns              []*ClientConn
	reqs               []*Request
	Cycles             int   // start/stop cycles the operator performs
	StopAt             []int // per cycle: scheduler step at which stop is requested (-1: when all client work is done)
	// StopAfterBegun >= 0 (first cycle only): stop is requested this many steps after the first
	// request's header block reached the server, i.e. while its handler is running.
	StopAfterBegun int
	begunStep      int
	cycleSeen      int
	cycleStart     int
	// operator state (written by the operator goroutine between yields, read by the scheduler at quiescence)
	op struct {
		cycle          int
		running        atomic.Bool // Run has returned in this cycle
		stopSignal     chan struct{}
		stopSent       bool
		stopStep       int
		awaitDone      atomic.Bool
		awaitAtStep    int
		boundAfter     []string // addresses still bound when AwaitStop returned (per cycle, appended)
		rebindErr      []string
		finished       atomic.Bool
		cyclesDone     atomic.Int32
		stopFakeTime   time.Duration
		awaitFake      time.Duration
		handlersAtStop []string
	}
	// TimeJumps: at these scheduler steps the fake clock jumps forward although work is in progress (a
	// slow proof, a slow client): every timer due in between fires.
	TimeJumps []TimeJump
	// WaitBound: clients dial only once their address is bound (a client that waits for the
	// service to come up); without it a dial may be refused, which the C14 oracle treats as legal.
	WaitBound  bool
	IdleRounds int
	Stuck      bool
	StuckWhy   string
	RefusedOK  bool
	Scrapes    []Scrape
	LateDialOK bool
	// PrioScrape k > 0: the k-th time the scheduler finds a task parked in front of the Groth16 prover call,
	// a scrape is made with priority over every proof computation (see priorityScrape). 0: never.
	PrioScrape int
	prioSeen   int
	prioDone   bool
}

// frozenReached: every slow uploader that could be dialled has delivered its bytes up to the freeze point.
func (w *World) frozenReached() bool {
	for _, c := range w.Conns {
		if c.FreezeAt > 0 && !c.refused && !c.vanished && (!c.dialed || c.Delivered < c.FreezeAt) {
			return false
		}
	}
	return true
}

func (w *World) hasFrozen() bool {
	for _, c := range w.Conns {
		if c.FreezeAt > 0 {
			return true
		}
	}
	return false
}

type TimeJump struct {
	Step int
	D    time.Duration
}

type Scrape struct {
	// BlockedBehindProof: this scrape was made in the priority phase (see priorityScrape): its request had
	// been delivered and accepted, every task not about to compute a proof had run until none was
	// enabled, five seconds of fake time had passed, and it still had no answer.
	BlockedBehindProof bool
	BlockedWhy         string
	Cycle              int
	Step               int
	Totals             map[string]float64 // "method/code" -> value for endpoint_pattern="/prove"
	InFlight           float64
	HasGauge           bool
	OK                 bool
	// bounds known to the simulator when the scrape response was produced
	SentLo map[string]int
	Begun  int
}

func (w *World) AddConn(c *ClientConn) *ClientConn {
	c.ID = len(w.Conns)
	if c.CutAt == 0 && c.Vanish == 0 {
		c.CutAt = -1
	}
	w.Conns = append(w.Conns, c)
	for _, r := range c.Reqs {
		r.ID = len(w.reqs)
		r.Cycle = c.Cycle
		w.reqs = append(w.reqs, r)
	}
	return c
}

func (w *World) Requests() []*Request { return w.reqs }

// shuttingDown reads the server's own flag, so that the seam's pre-check is the library's.
func shuttingDown(srv *http.Server) bool {
	f := reflect.ValueOf(srv).Elem().FieldByName("inShutdown")
	if !f.IsValid() {
		panic("net/http.Server has no inShutdown field in this toolchain")
	}
	return (*atomic.Bool)(unsafe.Pointer(f.UnsafeAddr())).Load()
}

// listenAndServe reproduces (*http.Server).ListenAndServe step by step over simnet, with a
// yield between bind and serve (where the OS may preempt the real thing).
func (s *Sim) listenAndServe(srv *http.Server) error {
	if shuttingDown(srv) {
		return http.ErrServerClosed
	}
	ln, err := s.Net.Listen(srv.Addr)
	if err != nil {
		return err
	}
	simyield.Y("net/http:ListenAndServe:bound->serve")
	return srv.Serve(ln)
}

// operator is the goroutine that plays main.go's role: Run, wait for the stop signal,
// RequestStop, AwaitStop, then (harness) probe that both addresses can be bound again.
func (w *World) operator(mode string) {
	for cycle := 0; cycle < w.Cycles; cycle++ {
		w.op.cycle = cycle
		cfg := server.Config{ProverAddress: ProverAddr, MetricsAddress: MetricsAddr, Mode: mode}
		if cycle == 0 {
			w.KnobLog = ApplyKnobs(&cfg, w.Knobs)
		} else {
			ApplyKnobs(&cfg, w.Knobs)
		}
		job := server.Run(&cfg, w.Sys.PS)
		w.op.running.Store(true)
		<-w.op.stopSignal
		job.RequestStop()
		job.AwaitStop()
		// --- harness code, no yields: what a caller observes the instant AwaitStop returns
		w.op.awaitFake = w.Sim.Elapsed()
		w.op.boundAfter = append(w.op.boundAfter, strings.Join(w.Sim.Net.BoundAddrs(), ","))
		re := ""
		for _, a := range []string{ProverAddr, MetricsAddr} {
			if l, err := w.Sim.Net.Listen(a); err != nil {
				re += a + ":" + err.Error() + ";"
			} else {
				l.Close()
			}
		}
		w.op.rebindErr = append(w.op.rebindErr, re)
		w.op.running.Store(false)
		w.op.stopSignal = make(chan struct{})
		w.op.stopSent = false
		w.op.cyclesDone.Add(1)
		if re != "" {
			break // a real caller's second Run would panic on the bound address; stop here
		}
	}
	w.op.finished.Store(true)
}

func (w *World) curCycle() int { return int(w.op.cyclesDone.Load()) }

// handlersActive: some task that entered through the wrapped mux is still parked (a handler has not
// finished), judged by the file of the task's first yield.
func (w *World) handlersActive() bool {
	for name := range w.Sim.ParkedAt() {
		if strings.HasPrefix(name, "server/wrapped_http/") {
			return true
		}
	}
	return false
}

func (w *World) clientWorkDone() bool {
	for _, c := range w.Conns {
		if c.Cycle != w.curCycle() {
			continue
		}
		if c.refused || c.vanished {
			continue
		}
		if !c.dialed {
			return false
		}
		if c.got < len(c.Reqs) && !c.closed {
			return false
		}
	}
	return true
}

func (w *World) othersSettled() bool {
	if w.handlersActive() {
		return false
	}
	for _, c := range w.Conns {
		if c.AfterOthers || c.Cycle != w.curCycle() {
			continue
		}
		if !c.dialed {
			return false
		}
		if !c.refused && !c.vanished && !c.closed && c.got < len(c.Reqs) {
			return false
		}
	}
	return true
}

// Begun counts requests whose header block has been delivered to the server.
func (w *World) Begun(metrics bool) int {
	n := 0
	for _, c := range w.Conns {
		if c.Cycle != w.curCycle() {
			continue
		}
		for i, r := range c.Reqs {
			if r.Metrics == metrics && c.HeadersDelivered(i, c.Delivered) {
				n++
			}
		}
	}
	return n
}

func (w *World) stopStepFor(cycle int) int {
	if cycle < len(w.StopAt) {
		return w.StopAt[cycle]
	}
	return -1
}

// operatorActions: the stop request is a scheduler action.
func (w *World) operatorActions() []Action {
	if w.op.finished.Load() || !w.op.running.Load() || w.op.stopSent {
		return nil
	}
	cyc := int(w.op.cyclesDone.Load())
	if w.cycleSeen != cyc+1 {
		w.cycleSeen, w.cycleStart = cyc+1, w.Sim.Step // first look at this cycle with Run returned
	}
	at := w.stopStepFor(cyc)
	if at >= 0 && cyc > 0 {
		at += w.cycleStart // scripted positions of later cycles are relative to that cycle's start
	}
	due := false
	if w.StopAfterBegun >= 0 && w.op.cyclesDone.Load() == 0 && len(w.Conns) > 0 {
		if w.begunStep == 0 && w.Begun(false) > 0 {
			w.begunStep = w.Sim.Step
		}
		due = (w.begunStep > 0 && w.Sim.Step >= w.begunStep+w.StopAfterBegun) || (w.IdleRounds > 0 && w.clientWorkDone())
		// a slow uploader has stalled and everything is quiet: the scripted stop position cannot be reached
		// by steps any more - the stop comes now, while that request sits in its handler waiting for its body
		if !due && w.begunStep > 0 && w.IdleRounds > 0 && w.hasFrozen() && !w.Thawed {
			due = true
		}
	} else if at >= 0 {
		// a scripted position beyond the point where everything has gone quiet means "then"
		due = w.Sim.Step >= at || (w.IdleRounds > 0 && w.clientWorkDone())
	} else {
		due = w.clientWorkDone()
	}
	// in later cycles with nothing scripted, stop as soon as possible
	if !due {
		return nil
	}
	return []Action{{Key: "op:stop", Desc: "operator requests stop", Do: func() {
		w.op.stopSent = true
		w.op.stopStep = w.Sim.Step
		w.op.stopFakeTime = w.Sim.Elapsed()
		var hs []string
		for name, site := range w.Sim.ParkedAt() {
			hs = append(hs, name+"@"+site)
		}
		sort.Strings(hs)
		w.op.handlersAtStop = hs
		for _, c := range w.Conns {
			d := -1
			if c.dialed && !c.refused && !c.vanished && !c.closed && c.conn.Accepted() && !c.conn.IsReset() {
				d = c.Delivered
			}
			c.DeliveredAtStop = append(c.DeliveredAtStop, d)
		}
		close(w.op.stopSignal)
	}}}
}

// clientActions: dial, continue, vanish, close.
func (w *World) clientActions() []Action {
	var acts []Action
	for _, c := range w.Conns {
		c := c
		key := fmt.Sprintf("client:%d", c.ID)
		switch {
		case c.refused || c.vanished || c.closed:
		case !c.dialed:
			if c.Cycle == w.curCycle() && (w.Sim.Step >= c.StartStep || w.IdleRounds > 0) && (!c.AfterOthers || w.othersSettled()) && (!c.AfterFrozen || w.frozenReached()) && (!w.WaitBound || w.Sim.Net.Bound(c.Addr)) {
				acts = append(acts, Action{Key: key, Desc: "dial " + c.Addr, Do: func() { w.dial(c) }})
			}
		default:
			if c.conn.IsReset() {
				c.vanished = true
				continue
			}
			pend, _ := c.conn.Pending(0)
			// sequential keep-alive: queue the next request once the previous response arrived
			if !c.Pipelined && c.sent < len(c.Reqs) && c.got == c.sent && pend == 0 {
				acts = append(acts, Action{Key: key, Desc: "send next request", Do: func() { w.queue(c, c.sent) }})
				continue
			}
			if c.sent == len(c.Reqs) && pend == 0 {
				if c.Vanish != 0 && !c.vanished && c.got < len(c.Reqs) {
					acts = append(acts, Action{Key: key, Desc: fmt.Sprintf("vanish(%d)", c.Vanish), Do: func() { w.vanish(c) }})
					continue
				}
				if c.LeaveBeforeResponse && c.got < len(c.Reqs) {
					acts = append(acts, Action{Key: key, Desc: "leave before response", Do: func() {
						c.conn.ClientReset()
						c.vanished = true
						for _, r := range c.Reqs[c.got:] {
							r.NoResponseOK = true
						}
					}})
					continue
				}
				if c.got == len(c.Reqs) {
					acts = append(acts, Action{Key: key, Desc: "close", Do: func() {
						c.conn.ClientCloseWrite()
						c.conn.Deliver(0, 0, true)
						c.closed = true
					}})
				}
			}
		}
	}
	return acts
}

func (w *World) dial(c *ClientConn) {
	conn, err := w.Sim.Net.Dial(c.Addr)
	c.dialed = true
	if err != nil {
		c.refused = true
		for _, r := range c.Reqs {
			r.NoResponseOK = true
		}
		return
	}
	c.conn = conn
	if c.Frag == 2 {
		c.headLeft = 6
	}
	if c.Pipelined {
		for i := range c.Reqs {
			w.queue(c, i)
		}
	} else {
		w.queue(c, 0)
	}
}

func (w *World) queue(c *ClientConn, i int) {
	r := c.Reqs[i]
	raw := r.Raw
	if i == len(c.Reqs)-1 && c.CutAt >= 0 && c.CutAt < len(raw) {
		raw = raw[:c.CutAt]
	}
	c.offsets = append(c.offsets, c.bytesOut)
	c.conn.ClientWrite(raw)
	c.bytesOut += len(raw)
	c.sent = i + 1
	r.QueuedAtStep = w.Sim.Step
}

func (w *World) vanish(c *ClientConn) {
	switch c.Vanish {
	case 1:
		c.conn.ClientCloseWrite()
		c.conn.Deliver(0, 0, true)
		c.Vanish = 0 // half-closed: the response may still arrive; the connection stays readable
	default:
		c.conn.ClientReset()
		c.vanished = true
		for _, r := range c.Reqs[c.got:] {
			r.NoResponseOK = true
		}
	}
}

// netActions: deliver client->server bytes in tape-chosen fragments.
func (w *World) netActions() []Action {
	var acts []Action
	for _, c := range w.Conns {
		c := c
		if c.conn == nil || c.vanished {
			continue
		}
		pend, _ := c.conn.Pending(0)
		if c.FreezeAt > 0 && !w.Thawed {
			if left := c.FreezeAt - c.Delivered; left < pend {
				pend = left // a slow uploader: nothing beyond the freeze point moves before the thaw
			}
		}
		if pend <= 0 {
			continue
		}
		acts = append(acts, Action{Key: fmt.Sprintf("net:%d", c.ID), Desc: fmt.Sprintf("deliver to server (%d pending)", pend), Do: func() {
			n := pend
			switch c.Frag {
			case 1:
				if pend > 1 {
					n = (pend + 1) / 2
				}
			case 2:
				if c.headLeft > 0 {
					n = 1
					c.headLeft--
				}
			case 3:
				n = 1 + w.Sim.T.Draw(pend)
			}
			c.Delivered += c.conn.Deliver(0, n, false)
			if n < pend {
				w.Sim.S.Count("fault:net/fragmented-delivery")
			}
		}})
	}
	return acts
}

// afterStep moves server->client bytes and parses complete responses.
func (w *World) afterStep() {
	w.Sim.settle()
	for _, c := range w.Conns {
		if c.conn == nil {
			continue
		}
		if n, fin := c.conn.Pending(1); n > 0 || fin {
			c.conn.Deliver(1, n, true)
		}
		data, eof, _ := c.conn.ClientRead()
		if len(data) > 0 {
			c.buf = append(c.buf, data...)
		}
		for c.got < c.sent {
			r := c.Reqs[c.got]
			resp, used, ok := parseResponse(c.buf, r.Method)
			if !ok {
				break
			}
			c.buf = c.buf[used:]
			r.Resp = resp
			r.RespAtStep = w.Sim.Step
			c.got++
			if r.Metrics {
				w.noteScrape(r)
			}
		}
		if eof && c.got < c.sent && !c.closed && !c.vanished {
			// server closed the connection without (fully) answering
			c.closed = true
		}
	}
}

// parseResponse extracts one complete non-1xx response from buf.
func parseResponse(buf []byte, method string) (*Response, int, bool) {
	off := 0
	for {
		under := bytes.NewReader(buf[off:])
		br := bufio.NewReader(under)
		resp, err := http.ReadResponse(br, &http.Request{Method: method})
		if err != nil {
			return nil, 0, false
		}
		body, err := io.ReadAll(resp.Body)
		resp.Body.Close()
		if err != nil {
			return nil, 0, false
		}
		if resp.ContentLength < 0 && !chunked(resp) && method != "HEAD" && resp.StatusCode >= 200 && resp.StatusCode != 204 && resp.StatusCode != 304 {
			// body delimited by connection close: complete only at EOF; treat what we have as incomplete
			return nil, 0, false
		}
		// bytes consumed = what bufio took from the underlying reader minus what it still holds
		used := len(buf[off:]) - under.Len() - br.Buffered()
		if resp.StatusCode >= 100 && resp.StatusCode < 200 {
			off += used
			continue
		}
		return &Response{Status: resp.StatusCode, Body: body, Header: resp.Header}, off + used, true
	}
}

func chunked(r *http.Response) bool {
	for _, te := range r.TransferEncoding {
		if te == "chunked" {
			return true
		}
	}
	return false
}

func (w *World) finished() bool {
	return w.op.finished.Load() && w.clientsSettled()
}

func (w *World) clientsSettled() bool {
	for _, c := range w.Conns {
		if !c.dialed && !w.op.finished.Load() {
			return false
		}
		if c.dialed && !c.refused && !c.vanished && !c.closed && c.got < len(c.Reqs) {
			return false
		}
	}
	return true
}

// Run drives the world to completion inside the current bubble.
func (w *World) Run(mode string) {
	s := w.Sim
	w.op.stopSignal = make(chan struct{})
	s.Providers = []func() []Action{w.netActions, w.clientActions, w.operatorActions}
	go w.operator(mode)
	for s.Step < s.MaxSteps {
		for _, j := range w.TimeJumps {
			if j.Step == s.Step && j.D > 0 {
				s.S.Count("fault:clock/jump-while-work-in-progress")
				s.AdvanceTime(j.D)
				s.S.Sim(j.D.Seconds())
				w.afterStep()
			}
		}
		w.maybePriorityScrape()
		progressed := s.StepOnce()
		w.afterStep()
		if w.finished() {
			break
		}
		thawAfter := 5
		if w.ThawAfter > 0 {
			thawAfter = w.ThawAfter
		}
		if !progressed && !w.Thawed && w.hasFrozen() && w.IdleRounds >= thawAfter {
			// Quiet for five seconds of fake time with the slow uploaders frozen: whatever another client has
			// sent completely must have been answered by now - its response may not wait for other clients.
			for _, c := range w.Conns {
				if c.FreezeAt > 0 || !c.dialed || c.refused || c.vanished || c.conn == nil {
					continue
				}
				if pend, _ := c.conn.Pending(0); pend == 0 && c.sent > c.got {
					w.BlockedByFrozen = append(w.BlockedByFrozen, c.Reqs[c.got])
				}
			}
			w.FrozenPhaseReached = w.frozenReached()
			w.Thawed = true
			w.IdleRounds = 0
			s.Log.Addf("sched", "thaw", "slow uploaders resume (%d requests were still unanswered)", len(w.BlockedByFrozen))
			continue
		}
		if !progressed {
			// nothing enabled: only time can help (Shutdown polls on a timer)
			w.IdleRounds++
			if w.IdleRounds > 14 {
				if os.Getenv("SIM_DEBUG") != "" {
					for _, c := range w.Conns {
						fmt.Fprintf(os.Stderr, "DEBUG conn %d dialed=%v sent=%d got=%d closed=%v vanished=%v buf=%d %q\n", c.ID, c.dialed, c.sent, c.got, c.closed, c.vanished, len(c.buf), string(c.buf[:min(len(c.buf), 300)]))
					}
				}
				w.Stuck = true
				w.StuckWhy = "nothing enabled and 14 s of fake time changed nothing"
				break
			}
			s.AdvanceTime(time.Second)
			s.S.Sim(1)
			w.afterStep()
			continue
		}
		if progressed {
			w.IdleRounds = 0
		}
	}
	if s.Step >= s.MaxSteps && !w.finished() {
		w.Stuck = true
		w.StuckWhy = fmt.Sprintf("step cap %d reached", s.MaxSteps)
	}
	// tear down: clients leave, parked tasks are released, goroutines drain
	for _, c := range w.Conns {
		if c.conn != nil && !c.conn.IsReset() {
			c.conn.ClientReset()
		}
	}
	if !w.op.finished.Load() {
		// unblock the operator so that the bubble can end
		if w.op.running.Load() && !w.op.stopSent {
			w.op.stopSent = true
			close(w.op.stopSignal)
		}
	}
	for i := 0; i < 40 && !w.op.finished.Load(); i++ {
		s.DrainTasks(50)
		s.settle()
		if !w.op.finished.Load() {
			time.Sleep(time.Second)
		}
		// further cycles after a forced teardown: signal stop whenever Run returns
		if w.op.running.Load() && !w.op.stopSent {
			w.op.stopSent = true
			close(w.op.stopSignal)
		}
	}
	s.DrainTasks(200)
	time.Sleep(8 * time.Second) // let net/http's new-connection grace period and pollers expire
	s.DrainTasks(200)
	s.S.Step(int64(s.Step))
}

// --- availability of the metrics endpoint while proofs are computed ---------------------------------

func atProve(t *Task) bool { return strings.HasSuffix(t.Site, "#prove") }

func (w *World) maybePriorityScrape() {
	if w.PrioScrape <= 0 || w.prioDone || w.op.stopSent || !w.op.running.Load() || w.op.finished.Load() {
		return
	}
	w.Sim.settle()
	if !w.Sim.Net.Bound(MetricsAddr) {
		return
	}
	n := 0
	for _, t := range w.Sim.parkedTasks() {
		if atProve(t) {
			n++
		}
	}
	if n == 0 {
		return
	}
	w.prioSeen++
	if w.prioSeen < w.PrioScrape {
		return
	}
	w.prioDone = true
	w.priorityScrape()
}

// priorityScrape decides "the metrics endpoint answers also while proofs are being computed" without
// any notion of how long a step takes: with at least one task parked in front of the Groth16 prover
// call, a scrape is dialled and delivered, and from then on the scheduler runs only tasks that are NOT
// about to compute a proof (so that every short critical section a handler may be inside is left),
// suppresses all other client, network and operator activity, and, when nothing of that kind is
// enabled any more, lets five seconds of fake time pass. If the scrape is still unanswered then, it can
// only be answered after a proof computation has run: that is the violation. Nothing is concluded
// when the dial is refused, the connection is not accepted, or the step budget of the phase runs out.
func (w *World) priorityScrape() {
	s := w.Sim
	s.S.Count("probe:priority_scrape_with_a_task_about_to_compute_a_proof")
	c := w.AddConn(&ClientConn{Addr: MetricsAddr, Reqs: []*Request{MetricsScrape()}, CutAt: -1, Cycle: w.curCycle()})
	s.Log.Addf("sched", "prio-scrape", "dial and deliver")
	w.dial(c)
	if c.refused {
		return
	}
	if n, _ := c.conn.Pending(0); n > 0 {
		c.Delivered += c.conn.Deliver(0, n, false)
	}
	timeAdv := 0
	for i := 0; i < 600; i++ {
		w.afterStep()
		if c.got > 0 || c.closed || c.vanished {
			if i == 0 {
				s.S.Count("probe:priority_scrape_answered_without_any_task_running")
			}
			return
		}
		var rest, prove []*Task
		for _, t := range s.parkedTasks() {
			if atProve(t) {
				prove = append(prove, t)
			} else {
				rest = append(rest, t)
			}
		}
		if len(rest) > 0 {
			t := rest[s.T.Pick(len(rest))]
			s.Step++
			s.Log.Addf("sched", "prio:"+t.Name, "run %s @%s", t.Name, t.Site)
			s.releaseTask(t)
			continue
		}
		if timeAdv < 5 {
			timeAdv++
			s.AdvanceTime(time.Second)
			s.S.Sim(1)
			continue
		}
		if len(prove) > 0 && c.conn.Accepted() {
			var at, waiting []string
			for _, t := range prove {
				at = append(at, t.Name+"@"+t.Site)
			}
			s.mu.Lock()
			for _, t := range s.named {
				if t.parked && t.lockWait {
					waiting = append(waiting, t.Name+"@"+t.Site)
				}
			}
			s.mu.Unlock()
			c.scrapeBlocked = true
			c.blockedWhy = fmt.Sprintf("tasks in front of the prover call: %v; tasks waiting for a mutex: %v", at, waiting)
			s.Log.Addf("sched", "prio-scrape", "blocked")
		}
		return
	}
}

// --- metrics ------------------------------------------------------------------------------

// ParseMetrics extracts the /prove request counters and in-flight gauge from a text exposition.
func ParseMetrics(body []byte) (totals map[string]float64, inflight float64, hasGauge bool) {
	totals = map[string]float64{}
	for _, ln := range strings.Split(string(body), "\n") {
		if strings.HasPrefix(ln, "#") || ln == "" {
			continue
		}
		if strings.HasPrefix(ln, "http_requests_total{") {
			lb, val := splitMetric(ln)
			if lb["endpoint_pattern"] != "/prove" {
				continue
			}
			totals[lb["method"]+"/"+lb["code"]] += val
		}
		if strings.HasPrefix(ln, "http_requests_in_flight") {
			lb, val := splitMetric(ln)
			if lb["endpoint_pattern"] == "/prove" {
				inflight, hasGauge = val, true
			}
		}
	}
	return
}

func splitMetric(ln string) (map[string]string, float64) {
	lb := map[string]string{}
	i := strings.IndexByte(ln, '{')
	j := strings.LastIndexByte(ln, '}')
	rest := ln
	if i >= 0 && j > i {
		for _, kv := range strings.Split(ln[i+1:j], ",") {
			if k, v, ok := strings.Cut(kv, "="); ok {
				lb[k] = strings.Trim(v, `"`)
			}
		}
		rest = ln[j+1:]
	} else if sp := strings.IndexByte(ln, ' '); sp >= 0 {
		rest = ln[sp:]
	}
	val, _ := strconv.ParseFloat(strings.TrimSpace(rest), 64)
	return lb, val
}

func (w *World) noteScrape(r *Request) {
	blocked, why := false, ""
	for _, c := range w.Conns {
		if len(c.Reqs) == 1 && c.Reqs[0] == r {
			blocked, why = c.scrapeBlocked, c.blockedWhy
		}
	}
	sc := Scrape{BlockedBehindProof: blocked, BlockedWhy: why, Cycle: r.Cycle, Step: w.Sim.Step, SentLo: map[string]int{}, Begun: w.Begun(false)}
	for _, q := range w.reqs {
		if !q.Metrics && q.Resp != nil && q.Cycle == r.Cycle {
			sc.SentLo[MethodLabel(q.Method)+"/"+strconv.Itoa(q.Resp.Status)]++
		}
	}
	if r.Resp != nil && r.Resp.Status == 200 {
		sc.OK = true
		sc.Totals, sc.InFlight, sc.HasGauge = ParseMetrics(r.Resp.Body)
	}
	w.Scrapes = append(w.Scrapes, sc)
}

// ErrorCode extracts the "code" of a JSON error body.
func ErrorCode(body []byte) string {
	var m map[string]string
	if json.Unmarshal(body, &m) != nil {
		return ""
	}
	return m["code"]
}

// Op exposes the operator's observations to the checks.
type OpView struct {
	CyclesDone     int
	Finished       bool
	BoundAfter     []string
	RebindErr      []string
	StopStep       int
	HandlersAtStop []string
}

func (w *World) Op() OpView {
	return OpView{CyclesDone: int(w.op.cyclesDone.Load()), Finished: w.op.finished.Load(), BoundAfter: w.op.boundAfter,
		RebindErr: w.op.rebindErr, StopStep: w.op.stopStep, HandlersAtStop: w.op.handlersAtStop}
}

// ApplyKnobs sets the configuration fields the harness does not know by name from pre-drawn values:
// durations from {default, 1s, 3s, 10s, 45s}, integers from {default, 1, 2, 4, 64}, switches on/off.
// A supported option is part of the system: the properties quantify over requests and timings, not over
// "the default configuration only". Fields of other kinds are left alone.
func ApplyKnobs(cfg *server.Config, draws []int) []string {
	var log []string
	v := reflect.ValueOf(cfg).Elem()
	k := 0
	for i := 0; i < v.NumField(); i++ {
		f := v.Type().Field(i)
		switch f.Name {
		case "ProverAddress", "MetricsAddress", "Mode":
			continue
		}
		if !f.IsExported() || k >= len(draws) {
			continue
		}
		d := draws[k]
		k++
		if d == 0 {
			continue
		}
		fv := v.Field(i)
		switch {
		case fv.Type() == reflect.TypeOf(time.Duration(0)):
			val := []time.Duration{0, time.Second, 3 * time.Second, 10 * time.Second, 45 * time.Second}[d%5]
			fv.SetInt(int64(val))
			log = append(log, fmt.Sprintf("%s=%v", f.Name, val))
		case fv.Kind() == reflect.Bool:
			fv.SetBool(d%2 == 1)
			log = append(log, fmt.Sprintf("%s=%v", f.Name, d%2 == 1))
		case fv.CanInt():
			val := []int64{0, 1, 2, 4, 64}[d%5]
			fv.SetInt(val)
			log = append(log, fmt.Sprintf("%s=%d", f.Name, val))
		case fv.CanUint():
			val := []uint64{0, 1, 2, 4, 64}[d%5]
			fv.SetUint(val)
			log = append(log, fmt.Sprintf("%s=%d", f.Name, val))
		}
	}
	return log
}
