package service

import (
	"fmt"
	"math/big"
	"strings"

	"verifsim/gtier"
)

func KindClass(k string) string {
	if i := strings.IndexByte(k, '/'); i >= 0 {
		return k[:i]
	}
	return k
}

// ProofValidFor decodes a 200 body with our own decoder and verifies it against hash.
func ProofValidFor(sys *gtier.System, body []byte, hash *big.Int) error {
	cs, err := gtier.DecodeJSON(body)
	if err != nil {
		return fmt.Errorf("response body is not the documented proof JSON: %w", err)
	}
	p, err := gtier.FromCoordinates(cs)
	if err != nil {
		return err
	}
	return gtier.VerifyWithVK(sys, p, hash)
}

// Judge compares one response with the reference verdict. It returns a violation class suffix
// and a detail, or "" when the response is what the property promises.
func Judge(sys *gtier.System, r *Request) (string, string) {
	kc := KindClass(r.Kind)
	if r.Resp == nil {
		if r.NoResponseOK {
			return "", ""
		}
		return "no-complete-response/" + kc, fmt.Sprintf("request %d (%s %s): no complete HTTP response reached the client", r.ID, r.Method, r.Kind)
	}
	st := r.Resp.Status
	code := ErrorCode(r.Resp.Body)
	if r.Expect.Grey {
		switch {
		case st == 400 && (code == "malformed_body" || code == "proving_error"):
			return "", ""
		case st == 200:
			if err := ProofValidFor(sys, r.Resp.Body, r.Hash); err != nil {
				return "grey-input-answered-200-with-invalid-proof", fmt.Sprintf("request %d (%s): %v", r.ID, r.Kind, err)
			}
			return "", ""
		}
		return "wrong-status/" + kc, fmt.Sprintf("request %d (%s): status %d code %q", r.ID, r.Kind, st, code)
	}
	if st != r.Expect.Status {
		return fmt.Sprintf("wrong-status/%s/want%d-got%d", kc, r.Expect.Status, st), fmt.Sprintf("request %d (%s %s): status %d (code %q), expected %d %s", r.ID, r.Method, r.Kind, st, code, r.Expect.Status, r.Expect.Code)
	}
	switch st {
	case 400:
		if code != r.Expect.Code {
			return fmt.Sprintf("wrong-error-code/%s/want-%s-got-%s", kc, r.Expect.Code, code), fmt.Sprintf("request %d (%s): 400 with code %q, expected %q; body %.200s", r.ID, r.Kind, code, r.Expect.Code, string(r.Resp.Body))
		}
	case 200:
		if r.Metrics {
			return "", ""
		}
		if err := ProofValidFor(sys, r.Resp.Body, r.Hash); err != nil {
			return "proof-does-not-verify-for-own-request", fmt.Sprintf("request %d (%s): 200 but %v; body %.300s", r.ID, r.Kind, err, string(r.Resp.Body))
		}
	}
	return "", ""
}

// JudgeDelivery is Judge without the cryptographic check of a 200 body: for properties that promise
// that a response arrives complete (graceful shutdown), not what a proof must satisfy.
func JudgeDelivery(sys *gtier.System, r *Request) (string, string) {
	cls, detail := Judge(sys, r)
	if cls == "proof-does-not-verify-for-own-request" || cls == "grey-input-answered-200-with-invalid-proof" {
		return "", ""
	}
	return cls, detail
}
