// Package service is World S: the real HTTP servers of the repository inside a synctest
// bubble, over package simnet, with every hand-over between repository goroutines decided by
// the tape at the yield points the instrumenter inserted.
package service

import (
	"fmt"
	"os"
	"runtime"
	"sort"
	"strconv"
	"sync"
	"sync/atomic"
	"testing"
	"testing/synctest"
	"time"

	"verifsim/engine"
	"verifsim/simnet"
	"verifsim/tape"

	"worldcoin/gnark-mbu/simyield"
)

// T is the *testing.T the binary obtained through testing.Main; synctest.Test needs one.
var T *testing.T

func goid() uint64 {
	var buf [64]byte
	n := runtime.Stack(buf[:], false)
	// "goroutine 123 [running]:"
	s := buf[len("goroutine "):n]
	i := 0
	for i < len(s) && s[i] >= '0' && s[i] <= '9' {
		i++
	}
	v, _ := strconv.ParseUint(string(s[:i]), 10, 64)
	return v
}

type Task struct {
	lockWait bool  // parked because TryLock failed
	epoch    int64 // unlock epoch observed when it failed
	goid     uint64
	Name     string
	First    string
	Site     string
	parked   bool
	release  chan struct{}
	Steps    int
}

// Action is one thing the scheduler can do next.
type Action struct {
	Key  string // stable identity (PCT priority, starvation)
	Desc string
	Do   func()
}

const (
	StratUniform = iota
	StratSticky
	StratPCT
	StratStarve
	StratFirst // canonical: always the first enabled action (used by enumerations)
)

var stratNames = []string{"uniform", "sticky", "pct", "starve-one", "first-enabled"}

type Sim struct {
	T   *tape.Tape
	Log *engine.EvLog
	S   *engine.Stats
	Net *simnet.Net

	schedG      uint64
	noYield     map[uint64]int
	unlockEpoch atomic.Int64
	mu          sync.Mutex
	tasks       map[uint64]*Task
	fresh       []*Task
	named       []*Task
	siteOrd     map[string]int

	Step     int
	MaxSteps int
	Strategy int
	lastKey  string
	prio     map[string]int64
	lowPrio  int64
	changeAt map[int]bool
	victim   string // key prefix never chosen while anything else is enabled
	victimN  int    // victim = the victimN-th task created (resolved lazily) when >= 0
	start    time.Time

	// Providers of non-task actions (network, clients, operator), called at every step.
	Providers []func() []Action
	// switchFrom/switchTo coverage: pairs (site of task X, next site of task Y != X)
	lastTaskSite string
	lastTaskName string
	Switches     map[string]bool
	MaxParallel  int // largest number of simultaneously enabled task actions seen
	Panics       []string
}

func NewSim(t *tape.Tape, log *engine.EvLog, st *engine.Stats) *Sim {
	return &Sim{T: t, Log: log, S: st, noYield: map[uint64]int{}, tasks: map[uint64]*Task{}, siteOrd: map[string]int{},
		prio: map[string]int64{}, changeAt: map[int]bool{}, Switches: map[string]bool{}, victimN: -1, MaxSteps: 6000}
}

// hook is installed as simyield.Hook for the duration of a bubble.
func (s *Sim) hook(site string) {
	if goid() == s.schedG {
		return
	}
	s.park(site, false)
}

func (s *Sim) park(site string, lockWait bool) {
	g := goid()
	s.mu.Lock()
	if s.noYield[g] > 0 && !lockWait {
		s.mu.Unlock()
		return
	}
	t := s.tasks[g]
	if t == nil {
		t = &Task{goid: g, First: site}
		s.tasks[g] = t
		s.fresh = append(s.fresh, t)
	}
	t.Site = site
	t.parked = true
	t.lockWait = lockWait
	t.epoch = s.unlockEpoch.Load()
	ch := make(chan struct{})
	t.release = ch
	s.mu.Unlock()
	<-ch
}

// lockHook is installed as simyield.LockHook: a task whose TryLock fails parks and becomes
// runnable again only after some Unlock happened anywhere (then it retries).
func (s *Sim) lockHook(try func() bool, lock func(), site string) {
	if goid() == s.schedG {
		lock()
		return
	}
	for !try() {
		s.S.Count("probe:task_waited_for_a_mutex_held_by_a_parked_task")
		s.park(site, true)
	}
}

func (s *Sim) unlockHook() { s.unlockEpoch.Add(1) }

// noYieldHook brackets code that must not park (the body of a sync.Once.Do).
func (s *Sim) noYieldHook(enter bool) {
	g := goid()
	s.mu.Lock()
	if enter {
		s.noYield[g]++
	} else if s.noYield[g] > 0 {
		s.noYield[g]--
	}
	s.mu.Unlock()
}

// settle waits for quiescence and names tasks that appeared since the last step.
// waitingSince is the monitor tick at which the scheduler entered synctest.Wait (0: not waiting).
// Ticks are counted by the monitor itself (real time): time.Now inside a bubble is the fake clock.
var waitingSince atomic.Int64
var monitorTicks atomic.Int64
var stallMonitor sync.Once

// startStallMonitor runs outside every bubble: if quiescence is not reached for 5 minutes of real
// time, some repository goroutine is blocked in a way synctest does not count as durable (a
// library mutex held by a parked task). That is a limit of the machinery: dump and exit 2.
func startStallMonitor() {
	stallMonitor.Do(func() {
		go func() {
			for {
				time.Sleep(10 * time.Second)
				now := monitorTicks.Add(1)
				if t := waitingSince.Load(); t != 0 && now-t > 30 {
					buf := make([]byte, 1<<20)
					n := runtime.Stack(buf, true)
					fmt.Fprintf(os.Stderr, "STALL: quiescence not reached for 5 minutes (a goroutine blocked on a non-durable primitive while its holder is parked?)\n%s\n", buf[:n])
					os.Exit(2)
				}
			}
		}()
	})
}

func (s *Sim) settle() {
	for {
		waitingSince.Store(monitorTicks.Load() + 1)
		synctest.Wait()
		waitingSince.Store(0)
		s.mu.Lock()
		if len(s.fresh) > 0 {
			sort.SliceStable(s.fresh, func(i, j int) bool { return s.fresh[i].First < s.fresh[j].First })
			for _, t := range s.fresh {
				t.Name = fmt.Sprintf("%s#%d", t.First, s.siteOrd[t.First])
				s.siteOrd[t.First]++
				s.named = append(s.named, t)
			}
			s.fresh = nil
		}
		s.mu.Unlock()
		// Backlogged connections are handed to the server one per quiescence: net/http starts a goroutine
		// per accepted connection, and two of them running side by side up to their first yield would be
		// named in the order the Go scheduler let them arrive (found by the determinism self-test under load).
		if s.Net == nil || !s.Net.GrantAccept() {
			return
		}
	}
}

func (s *Sim) parkedTasks() []*Task {
	s.mu.Lock()
	defer s.mu.Unlock()
	var out []*Task
	for _, t := range s.named {
		if t.parked && (!t.lockWait || s.unlockEpoch.Load() > t.epoch) {
			out = append(out, t)
		}
	}
	sort.Slice(out, func(i, j int) bool { return out[i].Name < out[j].Name })
	return out
}

// ParkedAt returns the sites at which tasks are currently parked (for probes and oracles).
func (s *Sim) ParkedAt() map[string]string {
	m := map[string]string{}
	for _, t := range s.parkedTasks() {
		m[t.Name] = t.Site
	}
	return m
}

func (s *Sim) releaseTask(t *Task) {
	s.mu.Lock()
	t.parked = false
	t.Steps++
	ch := t.release
	site := t.Site
	s.mu.Unlock()
	if s.lastTaskName != "" && s.lastTaskName != t.Name {
		s.Switches[s.lastTaskSite+">"+site] = true
	}
	s.lastTaskName, s.lastTaskSite = t.Name, site
	close(ch)
}

// Configure draws the scheduling strategy of this run.
func (s *Sim) Configure(allowed []int) {
	s.Strategy = allowed[s.T.Pick(len(allowed))]
	switch s.Strategy {
	case StratPCT:
		d := 1 + s.T.Draw(3)
		for i := 0; i < d; i++ {
			s.changeAt[s.T.Draw(400)] = true
		}
	case StratStarve:
		s.victimN = s.T.Draw(8)
	}
}

func (s *Sim) StrategyName() string { return stratNames[s.Strategy] }

func (s *Sim) enabled() []Action {
	var acts []Action
	pts := s.parkedTasks()
	if len(pts) > s.MaxParallel {
		s.MaxParallel = len(pts)
	}
	for _, t := range pts {
		t := t
		acts = append(acts, Action{Key: "task:" + t.Name, Desc: "run " + t.Name + " @" + t.Site, Do: func() { s.releaseTask(t) }})
	}
	for _, p := range s.Providers {
		acts = append(acts, p()...)
	}
	return acts
}

func (s *Sim) pick(acts []Action) Action {
	if len(acts) == 1 {
		return acts[0]
	}
	// resolve the starvation victim lazily: the n-th task ever named
	if s.Strategy == StratStarve && s.victim == "" && s.victimN >= 0 && s.victimN < len(s.named) {
		s.victim = "task:" + s.named[s.victimN].Name
	}
	switch s.Strategy {
	case StratFirst:
		return acts[0]
	case StratSticky:
		for _, a := range acts {
			if a.Key == s.lastKey && !s.T.Chance(1, 5) {
				return a
			}
		}
		return acts[s.T.Pick(len(acts))]
	case StratPCT:
		for _, a := range acts {
			if _, ok := s.prio[a.Key]; !ok {
				s.prio[a.Key] = 1 + int64(s.T.U32())
			}
		}
		best := 0
		for i, a := range acts {
			if s.prio[a.Key] > s.prio[acts[best].Key] {
				best = i
			}
		}
		if s.changeAt[s.Step] {
			s.lowPrio--
			s.prio[acts[best].Key] = s.lowPrio
			best = 0
			for i, a := range acts {
				if s.prio[a.Key] > s.prio[acts[best].Key] {
					best = i
				}
			}
		}
		return acts[best]
	case StratStarve:
		var rest []Action
		for _, a := range acts {
			if a.Key != s.victim {
				rest = append(rest, a)
			}
		}
		if len(rest) == 0 {
			return acts[0]
		}
		return rest[s.T.Pick(len(rest))]
	default:
		return acts[s.T.Pick(len(acts))]
	}
}

// StepOnce performs one scheduler step. It returns false when nothing is enabled.
func (s *Sim) StepOnce() bool {
	s.settle()
	acts := s.enabled()
	if len(acts) == 0 {
		return false
	}
	a := s.pick(acts)
	s.lastKey = a.Key
	s.Step++
	s.Log.Addf("sched", a.Key, "%s", a.Desc)
	a.Do()
	return true
}

// AdvanceTime lets the bubble's fake clock run for d (every timer due in between fires).
func (s *Sim) AdvanceTime(d time.Duration) {
	s.settle()
	s.Log.Addf("sched", "time", "+%s", d)
	// the fake clock only moves when every goroutine of the bubble is durably blocked: the stall monitor
	// watches this sleep like a quiescence wait (a goroutine stuck on a library mutex would hang it forever)
	waitingSince.Store(monitorTicks.Load() + 1)
	time.Sleep(d)
	waitingSince.Store(0)
	s.settle()
}

// Elapsed is the fake time since the bubble started.
func (s *Sim) Elapsed() time.Duration { return time.Since(s.start) }

// DrainTasks releases every parked task until none is parked (end of run).
func (s *Sim) DrainTasks(max int) {
	for i := 0; i < max; i++ {
		s.settle()
		pts := s.parkedTasks()
		if len(pts) == 0 {
			return
		}
		for _, t := range pts {
			s.releaseTask(t)
		}
	}
}

// RunBubble executes body inside a fresh synctest bubble with the yield hook installed. It
// returns an error for an end-of-bubble deadlock (goroutines left blocked) or a panic of body.
func (s *Sim) RunBubble(body func()) (bubbleErr error) {
	if T == nil {
		panic("service.T not set: simcheck must run under testing.Main")
	}
	startStallMonitor()
	defer func() {
		simyield.Hook = nil
		simyield.ListenHook = nil
		simyield.LockHook = nil
		simyield.UnlockHook = nil
		simyield.NoYieldHook = nil
		if r := recover(); r != nil {
			bubbleErr = fmt.Errorf("%v", r)
		}
	}()
	var bodyPanic any
	synctest.Test(T, func(t *testing.T) {
		defer func() {
			if r := recover(); r != nil {
				bodyPanic = r
				buf := make([]byte, 16384)
				n := runtime.Stack(buf, false)
				s.Panics = append(s.Panics, fmt.Sprintf("%v\n%s", r, buf[:n]))
			}
		}()
		s.schedG = goid()
		s.start = time.Now()
		s.Net = simnet.New()
		s.Net.Gated = true
		simyield.Hook = s.hook
		simyield.ListenHook = s.listenAndServe
		simyield.LockHook = s.lockHook
		simyield.UnlockHook = s.unlockHook
		simyield.NoYieldHook = s.noYieldHook
		body()
	})
	if bodyPanic != nil {
		panic(fmt.Sprintf("scheduler body panicked: %v\n%v", bodyPanic, s.Panics))
	}
	return nil
}

// SetVictim makes the n-th task created the one that never runs while anything else can.
func (s *Sim) SetVictim(n int) { s.victimN = n }

// NamedCount is the number of tasks named so far.
func (s *Sim) NamedCount() int {
	s.mu.Lock()
	defer s.mu.Unlock()
	return len(s.named) + len(s.fresh)
}
