package service

import (
	"bytes"
	"encoding/json"
	"fmt"
	"math/big"
	"strings"

	"verifsim/gtier"
	"verifsim/oracle"
	"verifsim/rollup"
	"verifsim/tape"
)

// paramsDoc is our own rendering of the documented parameter JSON (not the repository's
// encoder): 0x-hex strings, startIndex / deletionIndices as JSON numbers.
type insDoc struct {
	InputHash  string     `json:"inputHash"`
	StartIndex uint32     `json:"startIndex"`
	PreRoot    string     `json:"preRoot"`
	PostRoot   string     `json:"postRoot"`
	IdComms    []string   `json:"identityCommitments"`
	Proofs     [][]string `json:"merkleProofs"`
}
type delDoc struct {
	InputHash string     `json:"inputHash"`
	Indices   []uint32   `json:"deletionIndices"`
	PreRoot   string     `json:"preRoot"`
	PostRoot  string     `json:"postRoot"`
	IdComms   []string   `json:"identityCommitments"`
	Proofs    [][]string `json:"merkleProofs"`
}

func hx(v *big.Int) string { return "0x" + v.Text(16) }
func hxs(vs []*big.Int) []string {
	out := make([]string, len(vs))
	for i, v := range vs {
		out[i] = hx(v)
	}
	return out
}
func hxs2(vs [][]*big.Int) [][]string {
	out := make([][]string, len(vs))
	for i, v := range vs {
		out[i] = hxs(v)
	}
	return out
}

func InsertionDoc(w *oracle.InsertionWitness) map[string]any {
	d := insDoc{hx(w.InputHash), uint32(w.Start.Uint64()), hx(w.Pre), hx(w.Post), hxs(w.Comms), hxs2(w.Paths)}
	b, _ := json.Marshal(d)
	var m map[string]any
	json.Unmarshal(b, &m)
	return m
}

func DeletionDoc(w *oracle.DeletionWitness) map[string]any {
	ix := make([]uint32, len(w.Indices))
	for i := range ix {
		ix[i] = uint32(w.Indices[i].Uint64())
	}
	d := delDoc{hx(w.InputHash), ix, hx(w.Pre), hx(w.Post), hxs(w.Items), hxs2(w.Paths)}
	b, _ := json.Marshal(d)
	var m map[string]any
	json.Unmarshal(b, &m)
	return m
}

func render(m map[string]any) []byte {
	b, err := json.Marshal(m)
	if err != nil {
		panic(err)
	}
	return b
}

// Gen builds requests for one proving system. salt makes every valid batch (hence every
// input hash) of a run distinct.
type Gen struct {
	T   *tape.Tape
	Sys *gtier.System
	n   int
}

// validDoc returns a fresh valid batch as a JSON document plus its hash.
func (g *Gen) validDoc() (map[string]any, *big.Int) {
	g.n++
	t := g.T
	if g.Sys.Mode == rollup.Insertion {
		w := rollup.NewWorld(g.Sys.Depth)
		if t.Chance(1, 2) {
			w.Populate(t, t.Range(0, 2))
		}
		comms := make([]*big.Int, g.Sys.Batch)
		for i := range comms {
			comms[i] = rollup.RandomCommitment(t)
			if t.Chance(1, 12) {
				comms[i] = big.NewInt(0) // any field element is a legal commitment, the empty value included
			}
		}
		start, ok := w.FreeStart(t, g.Sys.Batch)
		if !ok {
			w = rollup.NewWorld(g.Sys.Depth)
			start = 0
		}
		iw := rollup.HonestInsertion(w.Model, start, comms)
		return InsertionDoc(iw), iw.InputHash
	}
	w := rollup.NewWorld(g.Sys.Depth)
	w.Populate(t, t.Range(1, 3))
	// make the batch unique: at least one occupied leaf with a random value is deleted or the pre-root is random anyway
	plan := w.PlanDeletion(t, g.Sys.Batch)
	dw := rollup.HonestDeletion(w.Model, plan.Indices, func(int) (*big.Int, []*big.Int) {
		p := make([]*big.Int, g.Sys.Depth)
		for i := range p {
			p[i] = big.NewInt(0)
		}
		return big.NewInt(0), p
	})
	return DeletionDoc(dw), dw.InputHash
}

func (g *Gen) post(body []byte, kind string, e Expect, hash *big.Int) *Request {
	return &Request{Method: "POST", Kind: kind, Body: body, Expect: e, Hash: hash, Raw: RawRequest("POST", "/prove", body, FrameCL)}
}

const (
	FrameCL = iota
	FrameChunked
	FrameExpect100
)

// RawRequest renders an HTTP/1.1 request.
func RawRequest(method, path string, body []byte, frame int) []byte {
	var b strings.Builder
	fmt.Fprintf(&b, "%s %s HTTP/1.1\r\nHost: sim\r\n", method, path)
	switch frame {
	case FrameChunked:
		b.WriteString("Transfer-Encoding: chunked\r\nContent-Type: application/json\r\n\r\n")
		rest := body
		for len(rest) > 0 {
			n := len(rest)
			if n > 37 {
				n = 37
			}
			fmt.Fprintf(&b, "%x\r\n%s\r\n", n, rest[:n])
			rest = rest[n:]
		}
		b.WriteString("0\r\n\r\n")
		return []byte(b.String())
	case FrameExpect100:
		fmt.Fprintf(&b, "Expect: 100-continue\r\n")
	}
	if len(body) > 0 || method == "POST" || method == "PUT" || method == "PATCH" {
		fmt.Fprintf(&b, "Content-Type: application/json\r\nContent-Length: %d\r\n", len(body))
	}
	b.WriteString("\r\n")
	return append([]byte(b.String()), body...)
}

// Valid returns a request carrying a fresh valid batch.
func (g *Gen) Valid() *Request {
	doc, h := g.validDoc()
	body := render(doc)
	kind := "valid"
	switch g.T.Weighted(12, 2, 1, 3) {
	case 3:
		// another representative of the same field element as input hash: h + k*r below 2^256 (the
		// public input is an element of the scalar field; what an on-chain caller holds is the 256-bit
		// digest or its reduction, and both name the same batch)
		rep := new(big.Int).Set(h)
		for k := 1 + g.T.Draw(5); k > 0; k-- {
			if n := new(big.Int).Add(rep, oracle.R); n.BitLen() <= 256 {
				rep = n
			}
		}
		b, _ := json.Marshal(doc)
		var m map[string]any
		json.Unmarshal(b, &m)
		m["inputHash"] = hx(rep)
		body = render(m)
		kind = "valid/unreduced-input-hash"
	case 1:
		// the same numbers with upper-case hexadecimal digits (still 0x-hexadecimal notation)
		body = upperHexDigits(body)
		kind = "valid/upper-case-hex-digits"
	case 2:
		// insignificant JSON whitespace: a large but perfectly valid document
		pad := bytes.Repeat([]byte(" \n\t "), 2000+g.T.Draw(40000))
		body = append(append([]byte("{"), pad...), body[1:]...)
		kind = "valid/whitespace-padded"
	}
	r := g.post(body, kind, Expect{Status: 200}, h)
	r.Doc = doc
	return r
}

// upperHexDigits upper-cases the digits a-f inside every "0x..." string of a JSON document.
func upperHexDigits(b []byte) []byte {
	out := append([]byte{}, b...)
	for i := 0; i+2 < len(out); i++ {
		if out[i] == '"' && out[i+1] == '0' && out[i+2] == 'x' {
			for j := i + 3; j < len(out) && out[j] != '"'; j++ {
				if out[j] >= 'a' && out[j] <= 'f' {
					out[j] -= 32
				}
			}
		}
	}
	return out
}

// InvalidVariantOf returns a request that shares input hash and pre-root with an earlier valid
// request but does not describe a valid batch (a key-too-coarse cache would confuse the two).
func (g *Gen) InvalidVariantOf(prev *Request) *Request {
	if prev == nil || prev.Doc == nil {
		return g.InvalidBatch()
	}
	b, _ := json.Marshal(prev.Doc)
	var doc map[string]any
	json.Unmarshal(b, &doc)
	kind := ""
	switch g.T.Draw(4) {
	case 0:
		// identical except for the stated input hash (same indices, roots, leaves)
		h, _ := new(big.Int).SetString(strings.TrimPrefix(doc["inputHash"].(string), "0x"), 16)
		doc["inputHash"] = hx(h.Add(h, big.NewInt(1)))
		return g.post(render(doc), "invalid-batch/variant-same-everything-other-input-hash", Expect{Status: 400, Code: "proving_error"}, nil)
	case 1:
		// same indices and roots, another sibling in one merkle proof of a real slot
		mp := doc["merkleProofs"].([]any)
		for i, rowAny := range mp {
			row := rowAny.([]any)
			real := true
			if g.Sys.Mode == rollup.Deletion {
				ix := doc["deletionIndices"].([]any)[i].(float64)
				real = uint64(ix) < uint64(1)<<uint(g.Sys.Depth)
			}
			if real && len(row) > 0 {
				row[g.T.Pick(len(row))] = hx(g.T.BigBelow(oracle.R))
				return g.post(render(doc), "invalid-batch/variant-same-hash-indices-roots-other-sibling", Expect{Status: 400, Code: "proving_error"}, nil)
			}
		}
	}
	if g.T.Chance(1, 2) {
		doc["postRoot"] = hx(g.T.BigBelow(oracle.R)) // same hash and pre-root, other post-root
		kind = "same-hash-and-pre-root-other-post-root"
	} else {
		ic := doc["identityCommitments"].([]any)
		if g.Sys.Mode == rollup.Insertion {
			ic[g.T.Pick(len(ic))] = hx(g.T.BigBelow(oracle.R))
			kind = "same-hash-and-roots-other-commitment"
		} else {
			doc["preRoot"] = hx(g.T.BigBelow(oracle.R))
			kind = "same-hash-other-pre-root"
		}
	}
	return g.post(render(doc), "invalid-batch/variant-"+kind, Expect{Status: 400, Code: "proving_error"}, nil)
}

// InvalidBatch: well-formed document that does not describe a valid batch.
func (g *Gen) InvalidBatch() *Request {
	doc, h := g.validDoc()
	t := g.T
	kind := ""
	switch t.Draw(5) {
	case 0:
		doc["postRoot"] = hx(t.BigBelow(oracle.R))
		kind = "post-root-random"
	case 1:
		doc["inputHash"] = hx(new(big.Int).Add(h, big.NewInt(1)))
		kind = "input-hash-plus-one"
	case 2:
		p := doc["merkleProofs"].([]any)
		row := p[t.Pick(len(p))].([]any)
		row[t.Pick(len(row))] = hx(t.BigBelow(oracle.R))
		// a padding slot's path is free; make sure the batch is really broken by also touching the pre-root
		doc["preRoot"] = hx(t.BigBelow(oracle.R))
		kind = "sibling-and-pre-root-random"
	case 3:
		doc["preRoot"] = doc["postRoot"]
		doc["postRoot"] = hx(t.BigBelow(oracle.R))
		kind = "roots-shifted"
	default:
		doc["inputHash"] = "0x0"
		kind = "input-hash-zero"
	}
	return g.post(render(doc), "invalid-batch/"+kind, Expect{Status: 400, Code: "proving_error"}, nil)
}

// WrongShape: well-formed document whose array dimensions differ from the system's.
func (g *Gen) WrongShape() *Request {
	doc, _ := g.validDoc()
	t := g.T
	kind := ""
	ic := doc["identityCommitments"].([]any)
	mp := doc["merkleProofs"].([]any)
	switch t.Draw(8) {
	case 6:
		mp[t.Pick(len(mp))] = nil // a JSON null where a row is expected
		kind = "null-merkle-proof-row"
	case 7:
		doc["identityCommitments"] = nil
		kind = "null-commitments"
	case 0:
		doc["identityCommitments"] = ic[:len(ic)-1]
		kind = "commitments-short"
	case 1:
		doc["identityCommitments"] = append(ic, "0x5")
		doc["merkleProofs"] = append(mp, mp[0])
		if g.Sys.Mode == rollup.Deletion {
			doc["deletionIndices"] = append(doc["deletionIndices"].([]any), float64(0))
		}
		kind = "batch-too-long"
	case 2:
		// one row (any position, not only the first) shorter or longer than the tree depth
		i := t.Pick(len(mp))
		row := mp[i].([]any)
		if t.Chance(1, 2) {
			mp[i] = row[:len(row)-1]
			kind = "ragged-merkle-proof-short-row"
		} else {
			mp[i] = append(append([]any{}, row...), "0x0")
			kind = "ragged-merkle-proof-long-row"
		}
	case 3:
		doc["merkleProofs"] = []any{}
		kind = "empty-merkle-proofs"
	case 4:
		doc["merkleProofs"] = nil // JSON null array
		kind = "null-merkle-proofs"
	default:
		if g.Sys.Mode == rollup.Deletion {
			di := doc["deletionIndices"].([]any)
			switch t.Draw(4) {
			case 0:
				doc["deletionIndices"] = di[:len(di)-1]
				kind = "indices-short"
			case 1:
				doc["deletionIndices"] = []any{}
				kind = "no-indices"
			case 2:
				doc["identityCommitments"] = []any{}
				kind = "no-commitments"
			default:
				doc["identityCommitments"] = []any{}
				doc["merkleProofs"] = []any{}
				kind = "no-commitments-no-proofs"
			}
		} else {
			doc["identityCommitments"] = []any{}
			if t.Chance(1, 2) {
				doc["merkleProofs"] = []any{}
			}
			kind = "no-commitments"
		}
	}
	return g.post(render(doc), "wrong-shape/"+kind, Expect{Status: 400, Code: "proving_error"}, nil)
}

// Malformed: the body is definitely not a well-formed parameter document.
func (g *Gen) Malformed() *Request {
	doc, _ := g.validDoc()
	t := g.T
	good := render(doc)
	var body []byte
	kind := ""
	numField := []string{"inputHash", "preRoot", "postRoot"}[t.Pick(3)]
	switch t.Draw(20) {
	case 17:
		// a JSON null where a number string is documented (ill-typed: a null is not a number)
		doc[numField] = nil
		body = render(doc)
		kind = "null-number-field"
	case 18:
		ic := doc["identityCommitments"].([]any)
		ic[t.Pick(len(ic))] = nil
		body = render(doc)
		kind = "null-commitment"
	case 19:
		mp := doc["merkleProofs"].([]any)
		row := mp[t.Pick(len(mp))].([]any)
		row[t.Pick(len(row))] = nil
		body = render(doc)
		kind = "null-sibling"
	case 16:
		// a long non-numeric string: the error body that echoes it spans several socket writes
		doc[numField] = "0x" + strings.Repeat("zq", 1000+t.Draw(3000))
		body = render(doc)
		kind = "long-non-numeric-string"
	case 0:
		body = []byte("this is not json")
		kind = "not-json"
	case 1:
		body = good[:1+t.Draw(len(good)-1)]
		kind = "truncated-json"
	case 2:
		doc[numField] = 12345 // JSON number where a string is documented
		body = render(doc)
		kind = "number-instead-of-string"
	case 3:
		doc[numField] = []string{"", "0x", "zz", " 1", "1e3", "0xg", "0x 1", "one", "0x1.8"}[t.Pick(9)]
		body = render(doc)
		kind = "non-numeric-string"
	case 4:
		ic := doc["identityCommitments"].([]any)
		ic[t.Pick(len(ic))] = []string{"", "0x", "zz", "1e3"}[t.Pick(4)]
		body = render(doc)
		kind = "non-numeric-commitment"
	case 5:
		mp := doc["merkleProofs"].([]any)
		row := mp[t.Pick(len(mp))].([]any)
		row[t.Pick(len(row))] = []string{"", "0x", "zz", "0x-"}[t.Pick(4)]
		body = render(doc)
		kind = "non-numeric-sibling"
	case 6:
		key := "startIndex"
		var bad any = []any{float64(4294967296), float64(-1), 1.5, "7", true}[t.Pick(5)]
		if g.Sys.Mode == rollup.Deletion {
			key = "deletionIndices"
			di := doc[key].([]any)
			di[t.Pick(len(di))] = bad
		} else {
			doc[key] = bad
		}
		body = render(doc)
		kind = "index-out-of-32-bits-or-not-integer"
	case 7:
		body = []byte("null")
		kind = "top-level-null"
	case 8:
		body = []byte(`[` + string(good) + `]`)
		kind = "top-level-array"
	case 9:
		body = []byte(`"` + strings.Repeat("a", 1+t.Draw(50)) + `"`)
		kind = "top-level-string"
	case 10:
		body = append(append([]byte{}, good...), []byte(" trailing-garbage")...)
		kind = "trailing-garbage"
	case 11:
		body = t.Bytes(1 + t.Draw(200))
		if json.Valid(body) {
			body = append([]byte{0xff}, body...)
		}
		kind = "arbitrary-bytes"
	case 12:
		body = []byte(strings.Repeat("[", 20000))
		kind = "deep-nesting"
	case 13:
		body = nil
		kind = "empty-body"
	case 14:
		doc["merkleProofs"] = "0x1"
		body = render(doc)
		kind = "string-instead-of-array"
	default:
		doc["identityCommitments"] = map[string]any{"0": "0x1"}
		body = render(doc)
		kind = "object-instead-of-array"
	}
	return g.post(body, "malformed/"+kind, Expect{Status: 400, Code: "malformed_body"}, nil)
}

// Grey: inputs on which the property text does not pin the answer; asserted only: a 400 with
// one of the two codes, or 200 with a proof valid for the document's hash, and no crash.
func (g *Gen) Grey() *Request {
	doc, h := g.validDoc()
	t := g.T
	kind := ""
	switch t.Draw(6) {
	case 0:
		delete(doc, []string{"inputHash", "preRoot", "postRoot", "identityCommitments", "merkleProofs"}[t.Pick(5)])
		kind = "missing-field"
	case 1:
		doc["unknownExtraField"] = "0x1"
		kind = "extra-field"
	case 2:
		pre, _ := new(big.Int).SetString(strings.TrimPrefix(doc["preRoot"].(string), "0x"), 16)
		doc["preRoot"] = pre.String() // decimal rendering of the same value
		kind = "decimal-number"
	case 3:
		pre, _ := new(big.Int).SetString(strings.TrimPrefix(doc["preRoot"].(string), "0x"), 16)
		doc["preRoot"] = hx(new(big.Int).Add(pre, oracle.R)) // same field element, other integer
		kind = "value-plus-r"
	case 4:
		doc["postRoot"] = "-" + doc["postRoot"].(string)
		kind = "negative-number"
	default:
		doc["inputHash"] = "0x" + strings.Repeat("0", 1+t.Draw(300)) + strings.TrimPrefix(doc["inputHash"].(string), "0x")
		kind = "leading-zeros"
	}
	return g.post(render(doc), "grey/"+kind, Expect{Grey: true}, h)
}

// NonPost: any other method yields 405.
func (g *Gen) NonPost() *Request {
	t := g.T
	m := []string{"GET", "PUT", "DELETE", "HEAD", "PATCH", "OPTIONS", "BREW"}[t.Pick(7)]
	var body []byte
	if m != "GET" && m != "HEAD" && t.Chance(1, 2) {
		doc, _ := g.validDoc()
		body = render(doc)
	}
	return &Request{Method: m, Kind: "non-post/" + m, Body: body, Expect: Expect{Status: 405}, Raw: RawRequest(m, "/prove", body, FrameCL)}
}

// MetricsScrape is a GET to the metrics endpoint.
func MetricsScrape() *Request {
	return &Request{Method: "GET", Kind: "scrape", Metrics: true, Expect: Expect{Status: 200}, Raw: RawRequest("GET", "/metrics", nil, FrameCL)}
}

// MethodLabel is client_golang's documented label spelling for a request method.
func MethodLabel(m string) string {
	switch strings.ToUpper(m) {
	case "GET", "PUT", "HEAD", "POST", "DELETE", "CONNECT", "OPTIONS", "NOTIFY", "TRACE", "PATCH":
		return strings.ToLower(m)
	}
	return "unknown"
}

// ParseInsertionDoc / ParseDeletionDoc: our own strict reader of the documented parameter JSON
// (0x-hex strings, JSON numbers for indices), used to judge what the CLI prints.
func ParseInsertionDoc(b []byte) (*oracle.InsertionWitness, error) {
	var d insDoc
	if err := json.Unmarshal(b, &d); err != nil {
		return nil, err
	}
	w := &oracle.InsertionWitness{Start: new(big.Int).SetUint64(uint64(d.StartIndex))}
	var err error
	if w.InputHash, err = unhx(d.InputHash); err != nil {
		return nil, err
	}
	if w.Pre, err = unhx(d.PreRoot); err != nil {
		return nil, err
	}
	if w.Post, err = unhx(d.PostRoot); err != nil {
		return nil, err
	}
	if w.Comms, err = unhxs(d.IdComms); err != nil {
		return nil, err
	}
	for _, row := range d.Proofs {
		r, err := unhxs(row)
		if err != nil {
			return nil, err
		}
		w.Paths = append(w.Paths, r)
	}
	if len(w.Paths) != len(w.Comms) {
		return nil, fmt.Errorf("%d merkle proofs for %d commitments", len(w.Paths), len(w.Comms))
	}
	return w, nil
}

func ParseDeletionDoc(b []byte) (*oracle.DeletionWitness, error) {
	var d delDoc
	if err := json.Unmarshal(b, &d); err != nil {
		return nil, err
	}
	w := &oracle.DeletionWitness{}
	for _, ix := range d.Indices {
		w.Indices = append(w.Indices, new(big.Int).SetUint64(uint64(ix)))
	}
	var err error
	if w.InputHash, err = unhx(d.InputHash); err != nil {
		return nil, err
	}
	if w.Pre, err = unhx(d.PreRoot); err != nil {
		return nil, err
	}
	if w.Post, err = unhx(d.PostRoot); err != nil {
		return nil, err
	}
	if w.Items, err = unhxs(d.IdComms); err != nil {
		return nil, err
	}
	for _, row := range d.Proofs {
		r, err := unhxs(row)
		if err != nil {
			return nil, err
		}
		w.Paths = append(w.Paths, r)
	}
	if len(w.Paths) != len(w.Indices) || len(w.Items) != len(w.Indices) {
		return nil, fmt.Errorf("array lengths differ: %d indices, %d items, %d merkle proofs", len(w.Indices), len(w.Items), len(w.Paths))
	}
	return w, nil
}

func unhx(s string) (*big.Int, error) {
	if !strings.HasPrefix(s, "0x") || len(s) < 3 {
		return nil, fmt.Errorf("%q is not a 0x-hexadecimal number", s)
	}
	v, ok := new(big.Int).SetString(s[2:], 16)
	if !ok {
		return nil, fmt.Errorf("%q is not a 0x-hexadecimal number", s)
	}
	return v, nil
}

func unhxs(ss []string) ([]*big.Int, error) {
	out := make([]*big.Int, len(ss))
	for i, s := range ss {
		v, err := unhx(s)
		if err != nil {
			return nil, err
		}
		out[i] = v
	}
	return out, nil
}

// Cheap returns a request that never reaches the prover (malformed, mis-shaped or non-POST): used for
// high-volume bursts.
func (g *Gen) Cheap() *Request {
	switch g.T.Weighted(5, 2, 1) {
	case 0:
		return g.Malformed()
	case 1:
		return g.WrongShape()
	default:
		return g.NonPost()
	}
}
