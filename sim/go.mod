module verifsim

go 1.26.8

require (
	github.com/anishathalye/porcupine v1.3.0
	github.com/consensys/gnark v0.8.0
	github.com/consensys/gnark-crypto v0.9.1
	github.com/iden3/go-iden3-crypto v0.0.13
	golang.org/x/crypto v0.25.0
	worldcoin/gnark-mbu v0.0.0
)

replace worldcoin/gnark-mbu => /repo
