// racecheck is the explicitly NON-deterministic companion of C13/C20: built with -race, it
// starts the real server on loopback ports with free-running goroutines and fires the request
// mixes all at once, so that the race detector (which a serialising scheduler blinds by
// creating happens-before edges) can see unsynchronised accesses. Its only verdicts are the
// detector's (exit code 66) and the raw responses, which the harness judges.
package main

import (
	"bytes"
	"encoding/json"
	"flag"
	"fmt"
	"io"
	"net/http"
	"os"
	"sync"
	"time"

	gnarklogger "github.com/consensys/gnark/logger"
	"github.com/rs/zerolog"

	"worldcoin/gnark-mbu/prover"
	"worldcoin/gnark-mbu/server"
)

type reqSpec struct {
	Method string `json:"method"`
	Body   []byte `json:"body"`
}

type respRec struct {
	Status int    `json:"status"`
	Body   []byte `json:"body"`
	Err    string `json:"err,omitempty"`
}

type scrapeRec struct {
	CallNs   int64  `json:"call_ns"`
	ReturnNs int64  `json:"return_ns"`
	Body     []byte `json:"body"`
}

type output struct {
	Rounds  [][]respRec `json:"rounds"`
	CallNs  [][]int64   `json:"call_ns"`
	RetNs   [][]int64   `json:"return_ns"`
	Scrapes []scrapeRec `json:"scrapes"`
}

func main() {
	keys := flag.String("keys", "", "proving system file")
	mode := flag.String("mode", "insertion", "mode")
	reqs := flag.String("requests", "", "JSON file: [][]reqSpec (rounds of concurrent requests)")
	out := flag.String("out", "", "output JSON")
	pa := flag.String("prover-address", "127.0.0.1:28080", "")
	ma := flag.String("metrics-address", "127.0.0.1:28081", "")
	flag.Parse()
	gnarklogger.Disable()
	zerolog.SetGlobalLevel(zerolog.Disabled)
	ps, err := prover.ReadSystemFromFile(*keys)
	if err != nil {
		fmt.Fprintln(os.Stderr, "racecheck: load keys:", err)
		os.Exit(2)
	}
	b, err := os.ReadFile(*reqs)
	if err != nil {
		fmt.Fprintln(os.Stderr, "racecheck:", err)
		os.Exit(2)
	}
	var rounds [][]reqSpec
	if err := json.Unmarshal(b, &rounds); err != nil {
		fmt.Fprintln(os.Stderr, "racecheck:", err)
		os.Exit(2)
	}
	job := server.Run(&server.Config{ProverAddress: *pa, MetricsAddress: *ma, Mode: *mode}, ps)
	client := &http.Client{Timeout: 10 * time.Minute}
	for i := 0; i < 400; i++ {
		if r, err := client.Get("http://" + *ma + "/metrics"); err == nil {
			io.Copy(io.Discard, r.Body)
			r.Body.Close()
			break
		}
		time.Sleep(25 * time.Millisecond)
	}
	time.Sleep(100 * time.Millisecond)
	t0 := time.Now()
	var res output
	var smu sync.Mutex
	for _, round := range rounds {
		recs := make([]respRec, len(round))
		calls := make([]int64, len(round))
		rets := make([]int64, len(round))
		var wg sync.WaitGroup
		stopScrape := make(chan struct{})
		var swg sync.WaitGroup
		swg.Add(1)
		go func() { // scraper overlapping the proofs
			defer swg.Done()
			for {
				select {
				case <-stopScrape:
					return
				default:
				}
				c := time.Since(t0).Nanoseconds()
				r, err := client.Get("http://" + *ma + "/metrics")
				if err == nil {
					body, _ := io.ReadAll(r.Body)
					r.Body.Close()
					smu.Lock()
					if len(res.Scrapes) < 400 {
						res.Scrapes = append(res.Scrapes, scrapeRec{CallNs: c, ReturnNs: time.Since(t0).Nanoseconds(), Body: body})
					}
					smu.Unlock()
				}
				time.Sleep(3 * time.Millisecond)
			}
		}()
		for i, rq := range round {
			wg.Add(1)
			go func(i int, rq reqSpec) {
				defer wg.Done()
				calls[i] = time.Since(t0).Nanoseconds()
				hr, _ := http.NewRequest(rq.Method, "http://"+*pa+"/prove", bytes.NewReader(rq.Body))
				hr.Header.Set("Content-Type", "application/json")
				r, err := client.Do(hr)
				if err != nil {
					recs[i] = respRec{Err: err.Error()}
					rets[i] = time.Since(t0).Nanoseconds()
					return
				}
				body, _ := io.ReadAll(r.Body)
				r.Body.Close()
				rets[i] = time.Since(t0).Nanoseconds()
				recs[i] = respRec{Status: r.StatusCode, Body: body}
			}(i, rq)
		}
		wg.Wait()
		close(stopScrape)
		swg.Wait()
		res.Rounds = append(res.Rounds, recs)
		res.CallNs = append(res.CallNs, calls)
		res.RetNs = append(res.RetNs, rets)
	}
	// one final scrape after everything completed
	if r, err := client.Get("http://" + *ma + "/metrics"); err == nil {
		body, _ := io.ReadAll(r.Body)
		r.Body.Close()
		c := time.Since(t0).Nanoseconds()
		res.Scrapes = append(res.Scrapes, scrapeRec{CallNs: c, ReturnNs: c + 1, Body: body})
	}
	job.RequestStop()
	job.AwaitStop()
	ob, _ := json.Marshal(res)
	if err := os.WriteFile(*out, ob, 0o644); err != nil {
		fmt.Fprintln(os.Stderr, "racecheck:", err)
		os.Exit(2)
	}
}
