// simcheck is the single binary behind every registered check.
package main

import (
	"fmt"
	"os"
	"strings"

	gnarklogger "github.com/consensys/gnark/logger"
	"github.com/rs/zerolog"

	"verifsim/checks"
	"verifsim/engine"
)

func main() {
	gnarklogger.Disable()
	zerolog.SetGlobalLevel(zerolog.Disabled) // the repository logs through zerolog to stderr
	o := engine.ParseFlags()
	chk := checks.Get(o.Prop)
	if chk == nil {
		fmt.Fprintf(os.Stderr, "unknown property %q (have %s)\n", o.Prop, strings.Join(checks.IDs(), " "))
		os.Exit(2)
	}
	engine.Main(chk, o)
}
