// simcheck is the single binary behind every registered check. It runs under testing.Main
// because testing/synctest needs a *testing.T to open a bubble.
package main

import (
	"fmt"
	"os"
	"strings"
	"testing"

	gnarklogger "github.com/consensys/gnark/logger"
	"github.com/rs/zerolog"

	"verifsim/checks"
	"verifsim/engine"
	"verifsim/service"
)

func main() {
	testing.Init()
	gnarklogger.Disable()
	zerolog.SetGlobalLevel(zerolog.Disabled) // the repository logs through zerolog to stderr
	o := engine.ParseFlags()
	chk := checks.Get(o.Prop)
	if chk == nil {
		fmt.Fprintf(os.Stderr, "unknown property %q (have %s)\n", o.Prop, strings.Join(checks.IDs(), " "))
		os.Exit(2)
	}
	testing.Main(func(pat, str string) (bool, error) { return true, nil },
		[]testing.InternalTest{{Name: "Sim", F: func(t *testing.T) {
			service.T = t
			engine.Main(chk, o) // exits the process
		}}}, nil, nil)
}
