package main

func main() {}
