// instrument rewrites a scratch copy of the repository for World S:
//
//  1. a call simyield.Y("<file>:<line>") is spliced in front of every statement of every
//     block, case clause and select clause of the request-path and job packages (server,
//     server/wrapped_http, logging, prover minus circuit definitions);
//  2. X.ListenAndServe() in package server becomes simyield.ListenAndServe(X).
//
// Edits are text splices on the same line of the original bytes (comments, build constraints
// and line numbers stay as they are). Exit status 0 on success, 1 when the listener seam is
// not found or a file does not parse.
package main

import (
	"fmt"
	"go/ast"
	"go/parser"
	"go/token"
	"os"
	"path/filepath"
	"sort"
	"strings"
)

const importPath = "worldcoin/gnark-mbu/simyield"

type splice struct {
	off  int
	text string
	del  int // bytes to delete at off (for the ListenAndServe rewrite)
}

// Functions that never get yields: circuit definitions (they run at compile time) and
// prometheus.Collector.Describe, which the registry calls while holding its write lock (a task
// parked there would make the next Gather block on a library mutex, which testing/synctest does not
// count as durably blocked).
var skipFuncs = map[string]bool{"Define": true, "DefineGadget": true, "Describe": true}

func main() {
	if len(os.Args) != 2 {
		fmt.Fprintln(os.Stderr, "usage: instrument <repo-copy>")
		os.Exit(1)
	}
	root := os.Args[1]
	dirs := []string{"server", "server/wrapped_http", "logging", "prover", "poseidon_tree"}
	yields, listens := 0, 0
	for _, d := range dirs {
		ents, _ := os.ReadDir(filepath.Join(root, d))
		for _, e := range ents {
			if !e.IsDir() && strings.HasSuffix(e.Name(), ".go") && !strings.HasSuffix(e.Name(), "_test.go") {
				collectOnce(filepath.Join(root, d, e.Name()))
			}
		}
	}
	for _, d := range dirs {
		ents, err := os.ReadDir(filepath.Join(root, d))
		if err != nil {
			fmt.Fprintf(os.Stderr, "instrument: %v\n", err)
			os.Exit(1)
		}
		for _, e := range ents {
			if e.IsDir() || !strings.HasSuffix(e.Name(), ".go") || strings.HasSuffix(e.Name(), "_test.go") {
				continue
			}
			path := filepath.Join(root, d, e.Name())
			y, l, err := rewrite(path, filepath.ToSlash(filepath.Join(d, e.Name())), d == "server")
			if err != nil {
				fmt.Fprintf(os.Stderr, "instrument: %s: %v\n", path, err)
				os.Exit(1)
			}
			yields += y
			listens += l
		}
	}
	fmt.Printf("instrument: %d yield sites, %d ListenAndServe seams\n", yields, listens)
	if listens == 0 {
		fmt.Fprintln(os.Stderr, "instrument: no X.ListenAndServe() call found in package server (listener seam not found)")
		os.Exit(1)
	}
}

// onceNames collects the names of struct fields and variables declared with type sync.Once
// anywhere in the instrumented directories (a syntactic approximation of "X is a sync.Once").
var onceNames = map[string]bool{}

func collectOnce(path string) {
	src, err := os.ReadFile(path)
	if err != nil {
		return
	}
	fset := token.NewFileSet()
	f, err := parser.ParseFile(fset, path, src, 0)
	if err != nil {
		return
	}
	isOnce := func(e ast.Expr) bool {
		if st, ok := e.(*ast.StarExpr); ok {
			e = st.X
		}
		sel, ok := e.(*ast.SelectorExpr)
		if !ok {
			return false
		}
		id, ok := sel.X.(*ast.Ident)
		return ok && id.Name == "sync" && sel.Sel.Name == "Once"
	}
	ast.Inspect(f, func(n ast.Node) bool {
		switch x := n.(type) {
		case *ast.Field:
			if isOnce(x.Type) {
				for _, nm := range x.Names {
					onceNames[nm.Name] = true
				}
			}
		case *ast.ValueSpec:
			if x.Type != nil && isOnce(x.Type) {
				for _, nm := range x.Names {
					onceNames[nm.Name] = true
				}
			}
		}
		return true
	})
}

func rewrite(path, rel string, lookForListen bool) (int, int, error) {
	src, err := os.ReadFile(path)
	if err != nil {
		return 0, 0, err
	}
	fset := token.NewFileSet()
	f, err := parser.ParseFile(fset, path, src, parser.ParseComments)
	if err != nil {
		return 0, 0, err
	}
	var sp []splice
	yields, listens, locks := 0, 0, 0
	addStmts := func(list []ast.Stmt) {
		for _, s := range list {
			switch s.(type) {
			case *ast.CaseClause, *ast.CommClause:
				continue // the body of a switch/select is a block of clauses, not of statements
			}
			pos := fset.Position(s.Pos())
			site := fmt.Sprintf("%s:%d", rel, pos.Line)
			// the statement (or the header of a compound statement) that runs the Groth16 prover: a
			// task parked here is "about to compute a proof" (used by the availability oracle of C20)
			hdrEnd := s.End()
			switch c := s.(type) {
			case *ast.IfStmt:
				hdrEnd = c.Body.Pos()
			case *ast.ForStmt:
				hdrEnd = c.Body.Pos()
			case *ast.RangeStmt:
				hdrEnd = c.Body.Pos()
			case *ast.SwitchStmt:
				hdrEnd = c.Body.Pos()
			case *ast.TypeSwitchStmt:
				hdrEnd = c.Body.Pos()
			case *ast.SelectStmt, *ast.BlockStmt, *ast.LabeledStmt:
				hdrEnd = s.Pos()
			}
			if strings.Contains(string(src[fset.Position(s.Pos()).Offset:fset.Position(hdrEnd).Offset]), "groth16.Prove(") {
				site += "#prove"
			}
			sp = append(sp, splice{off: pos.Offset, text: fmt.Sprintf("simyield.Y(%q); ", site)})
			yields++
		}
	}
	var walk func(n ast.Node) bool
	walk = func(n ast.Node) bool {
		switch x := n.(type) {
		case *ast.FuncDecl:
			if skipFuncs[x.Name.Name] {
				return false
			}
		case *ast.BlockStmt:
			addStmts(x.List)
		case *ast.CaseClause:
			addStmts(x.Body)
		case *ast.CommClause:
			addStmts(x.Body)
		case *ast.CallExpr:
			// X.Lock() / X.RLock() / X.Unlock() / X.RUnlock() -> simyield.Lock(X.TryLock, X.Lock, site) / simyield.Unlock(X.Unlock)
			if sel, ok := x.Fun.(*ast.SelectorExpr); ok && len(x.Args) == 0 {
				xs, xe := fset.Position(sel.X.Pos()).Offset, fset.Position(sel.X.End()).Offset
				end := fset.Position(x.End()).Offset
				recv := string(src[xs:xe])
				pos := fset.Position(x.Pos())
				site := fmt.Sprintf("%s:%d", rel, pos.Line)
				switch sel.Sel.Name {
				case "Lock":
					sp = append(sp, splice{off: xs, del: end - xs, text: fmt.Sprintf("simyield.Lock(%s.TryLock, %s.Lock, %q)", recv, recv, "mutex-wait:"+site)})
					locks++
				case "RLock":
					sp = append(sp, splice{off: xs, del: end - xs, text: fmt.Sprintf("simyield.Lock(%s.TryRLock, %s.RLock, %q)", recv, recv, "mutex-wait:"+site)})
					locks++
				case "Unlock", "RUnlock":
					sp = append(sp, splice{off: xs, del: end - xs, text: fmt.Sprintf("simyield.Unlock(%s.%s)", recv, sel.Sel.Name)})
					locks++
				}
			}
			// X.Do(f) on a sync.Once X -> simyield.OnceDo(X.Do, f)
			if sel, ok := x.Fun.(*ast.SelectorExpr); ok && sel.Sel.Name == "Do" && len(x.Args) == 1 {
				last := ""
				switch r := sel.X.(type) {
				case *ast.Ident:
					last = r.Name
				case *ast.SelectorExpr:
					last = r.Sel.Name
				}
				if onceNames[last] {
					xs, xe := fset.Position(sel.X.Pos()).Offset, fset.Position(sel.X.End()).Offset
					as := fset.Position(x.Args[0].Pos()).Offset
					recv := string(src[xs:xe])
					// replace "X.Do(" by "simyield.OnceDo(X.Do, " and keep the argument and ")" as they are
					sp = append(sp, splice{off: xs, del: as - xs, text: "simyield.OnceDo(" + recv + ".Do, "})
					locks++
				}
			}
			if lookForListen {
				if sel, ok := x.Fun.(*ast.SelectorExpr); ok && sel.Sel.Name == "ListenAndServe" && len(x.Args) == 0 {
					// X.ListenAndServe()  ->  simyield.ListenAndServe(X)
					xs, xe := fset.Position(sel.X.Pos()).Offset, fset.Position(sel.X.End()).Offset
					end := fset.Position(x.End()).Offset
					recv := string(src[xs:xe])
					sp = append(sp, splice{off: xs, del: end - xs, text: "simyield.ListenAndServe(" + recv + ")"})
					listens++
				}
			}
		}
		return true
	}
	ast.Inspect(f, walk)
	if len(sp) == 0 {
		return 0, 0, nil
	}
	// import on the package clause line
	pkgEnd := fset.Position(f.Name.End()).Offset
	sp = append(sp, splice{off: pkgEnd, text: "; import simyield \"" + importPath + "\""})
	_ = locks
	sort.SliceStable(sp, func(i, j int) bool { return sp[i].off < sp[j].off })
	var out []byte
	last := 0
	for _, s := range sp {
		if s.off < last {
			return 0, 0, fmt.Errorf("overlapping edits at offset %d", s.off)
		}
		out = append(out, src[last:s.off]...)
		out = append(out, s.text...)
		last = s.off + s.del
	}
	out = append(out, src[last:]...)
	if err := os.WriteFile(path, out, 0o644); err != nil {
		return 0, 0, err
	}
	// the result must parse
	if _, err := parser.ParseFile(token.NewFileSet(), path, out, 0); err != nil {
		return 0, 0, fmt.Errorf("instrumented file does not parse: %w", err)
	}
	return yields, listens, nil
}
