// Package ops is World O at process level: every CLI step is a fresh OS process of the
// gnark-mbu binary built from the current tree (tag verif: seeded crypto/rand), sharing real
// files in a per-worker scratch directory.
package ops

import (
	"bytes"
	"context"
	"crypto/sha256"
	"encoding/hex"
	"fmt"
	"os"
	"os/exec"
	"path/filepath"
	"strconv"
	"syscall"
	"time"
)

// Bin is the gnark-mbu binary of the current tree (set by the check script).
func Bin() string { return os.Getenv("VERIF_MBU_BIN") }

// Scratch returns (and creates) a private directory under the check's scratch directory.
func Scratch(name string) (string, error) {
	root := os.Getenv("VERIF_SCRATCH_DIR")
	if root == "" {
		root = os.TempDir()
	}
	d := filepath.Join(root, name)
	if err := os.MkdirAll(d, 0o755); err != nil {
		return "", err
	}
	return d, nil
}

type Result struct {
	Exit     int
	Stdout   []byte
	Stderr   []byte
	TimedOut bool
	Signal   string
	// SignalSent: the requested signal was delivered before the process had exited
	SignalSent bool
}

type Cmd struct {
	Args       []string
	Stdin      []byte
	RandSeed   string // VERIF_RAND_SEED for the process ("" = real randomness)
	GoMaxProcs int
	Timeout    time.Duration
	Dir        string
	Env        []string
	// SignalAfter > 0: Signal is sent to the process that long after it started (a ^C, a supervisor's TERM, a
	// pipeline being torn down) - a fault at an arbitrary instant of a one-shot command
	SignalAfter time.Duration
	Signal      syscall.Signal
}

// Run executes one CLI step as a fresh process.
func Run(c Cmd) Result {
	if Bin() == "" {
		panic("VERIF_MBU_BIN not set: the check script must build gnark-mbu first")
	}
	to := c.Timeout
	if to == 0 {
		to = 10 * time.Minute
	}
	ctx, cancel := context.WithTimeout(context.Background(), to)
	defer cancel()
	cmd := exec.CommandContext(ctx, Bin(), c.Args...)
	cmd.Dir = c.Dir
	cmd.Env = append(os.Environ(), c.Env...)
	if c.RandSeed != "" {
		cmd.Env = append(cmd.Env, "VERIF_RAND_SEED="+c.RandSeed)
	}
	if c.GoMaxProcs > 0 {
		cmd.Env = append(cmd.Env, "GOMAXPROCS="+strconv.Itoa(c.GoMaxProcs))
	}
	cmd.Stdin = bytes.NewReader(c.Stdin)
	var so, se bytes.Buffer
	cmd.Stdout, cmd.Stderr = &so, &se
	var err error
	sent := false
	if c.SignalAfter > 0 {
		if err = cmd.Start(); err == nil {
			tm := time.AfterFunc(c.SignalAfter, func() { cmd.Process.Signal(c.Signal) })
			err = cmd.Wait()
			sent = !tm.Stop()
		}
	} else {
		err = cmd.Run()
	}
	r := Result{Stdout: so.Bytes(), Stderr: se.Bytes(), SignalSent: sent}
	if ctx.Err() == context.DeadlineExceeded {
		r.TimedOut = true
	}
	if err != nil {
		if ee, ok := err.(*exec.ExitError); ok {
			r.Exit = ee.ExitCode()
			if ws, ok := ee.Sys().(syscall.WaitStatus); ok && ws.Signaled() {
				r.Signal = ws.Signal().String()
			}
		} else {
			r.Exit = -1
			r.Stderr = append(r.Stderr, []byte(err.Error())...)
		}
	}
	return r
}

func FileSHA256(path string) (string, error) {
	b, err := os.ReadFile(path)
	if err != nil {
		return "", err
	}
	h := sha256.Sum256(b)
	return hex.EncodeToString(h[:]), nil
}

func Tail(b []byte, n int) string {
	if len(b) > n {
		return "..." + string(b[len(b)-n:])
	}
	return string(b)
}

func Describe(r Result) string {
	return fmt.Sprintf("exit=%d timeout=%v signal=%s stdout=%dB stderr=%q", r.Exit, r.TimedOut, r.Signal, len(r.Stdout), Tail(r.Stderr, 200))
}
