// Package simnet is the simulated network of World S: listeners with real bind semantics
// (one per address, "address already in use" otherwise, freed by Close) and connections
// whose two directions are byte queues. Write only enqueues; bytes become readable when the
// scheduler performs a Deliver action. Everything blocks on channels created inside the
// synctest bubble, so a blocked Accept or Read is durably blocked; read deadlines are
// honoured (net/http relies on them to abort its background read).
package simnet

import (
	"errors"
	"fmt"
	"io"
	"net"
	"os"
	"sort"
	"sync"
	"sync/atomic"
	"syscall"
	"time"
)

type Addr string

func (a Addr) Network() string { return "sim" }
func (a Addr) String() string  { return string(a) }

type Net struct {
	mu        sync.Mutex
	listeners map[string]*Listener
	conns     []*Conn
	nextConn  int
	Stats     map[string]int
	Gated     bool // Accept waits for GrantAccept (set by the simulator before anything listens)
}

func New() *Net { return &Net{listeners: map[string]*Listener{}, Stats: map[string]int{}} }

type Listener struct {
	n      *Net
	addr   string
	q      chan *end
	closed chan struct{}
	once   sync.Once
	// accept gate (Net.Gated): Accept hands out a connection only after the simulator granted a permit, one
	// per quiescence, so that the goroutines net/http starts for two backlogged connections never run
	// side by side up to their first yield (their arrival order there would be the Go scheduler's choice)
	permit  chan struct{}
	waiting atomic.Int32
}

var ErrAddrInUse = &net.OpError{Op: "listen", Net: "sim", Err: os.NewSyscallError("bind", syscall.EADDRINUSE)}

func (n *Net) Listen(addr string) (*Listener, error) {
	n.mu.Lock()
	defer n.mu.Unlock()
	if _, ok := n.listeners[addr]; ok {
		return nil, ErrAddrInUse
	}
	l := &Listener{n: n, addr: addr, q: make(chan *end, 64), closed: make(chan struct{}), permit: make(chan struct{}, 1)}
	n.listeners[addr] = l
	return l, nil
}

// Bound reports whether an address currently has a listener.
func (n *Net) Bound(addr string) bool {
	n.mu.Lock()
	defer n.mu.Unlock()
	_, ok := n.listeners[addr]
	return ok
}

// GrantAccept lets one waiting Accept (listeners in address order) take one queued connection. It
// reports whether a permit was granted; the caller waits for quiescence and asks again.
func (n *Net) GrantAccept() bool {
	n.mu.Lock()
	defer n.mu.Unlock()
	addrs := make([]string, 0, len(n.listeners))
	for a := range n.listeners {
		addrs = append(addrs, a)
	}
	sort.Strings(addrs)
	for _, a := range addrs {
		l := n.listeners[a]
		if l.waiting.Load() > 0 && len(l.q) > 0 && len(l.permit) == 0 {
			l.permit <- struct{}{}
			return true
		}
	}
	return false
}

func (l *Listener) Accept() (net.Conn, error) {
	if l.n.Gated {
		l.waiting.Add(1)
		select {
		case <-l.permit:
			l.waiting.Add(-1)
		case <-l.closed:
			l.waiting.Add(-1)
			return nil, net.ErrClosed
		}
	}
	select {
	case e := <-l.q:
		e.c.mu.Lock()
		e.c.accepted = true
		e.c.mu.Unlock()
		return e, nil
	case <-l.closed:
		return nil, net.ErrClosed
	}
}

// Accepted reports whether the server application has taken the connection off the listener
// (before that it only sits in the listen backlog).
func (c *Conn) Accepted() bool {
	c.mu.Lock()
	defer c.mu.Unlock()
	return c.accepted
}

func (l *Listener) Close() error {
	l.once.Do(func() {
		l.n.mu.Lock()
		if l.n.listeners[l.addr] == l {
			delete(l.n.listeners, l.addr)
		}
		l.n.mu.Unlock()
		close(l.closed)
		// connections queued but never accepted see a reset
		for {
			select {
			case e := <-l.q:
				e.c.reset()
			default:
				return
			}
		}
	})
	return nil
}

func (l *Listener) Addr() net.Addr { return Addr(l.addr) }

// Conn is one simulated TCP connection. Side 0 is the client (driven by scheduler actions),
// side 1 the server (a net.Conn handed to net/http).
type Conn struct {
	ID       int
	Addr     string
	mu       sync.Mutex
	dir      [2]*pipe // dir[0]: client->server, dir[1]: server->client
	rst      bool
	accepted bool
	wake     [2]chan struct{} // closed and replaced whenever reader-visible state of dir[i] changes
}

type pipe struct {
	pending []byte // written, not yet delivered
	ready   []byte // delivered, not yet read
	finSent bool   // writer closed its side
	finRcvd bool   // FIN delivered to the reader
}

type end struct {
	c        *Conn
	side     int // 0 client, 1 server
	deadline time.Time
	closed   bool
}

// Dial creates a connection to addr; the server end is queued for Accept.
func (n *Net) Dial(addr string) (*Conn, error) {
	n.mu.Lock()
	l, ok := n.listeners[addr]
	if !ok {
		n.mu.Unlock()
		return nil, &net.OpError{Op: "dial", Net: "sim", Err: os.NewSyscallError("connect", syscall.ECONNREFUSED)}
	}
	c := &Conn{ID: n.nextConn, Addr: addr}
	n.nextConn++
	c.dir[0], c.dir[1] = &pipe{}, &pipe{}
	c.wake[0], c.wake[1] = make(chan struct{}), make(chan struct{})
	n.conns = append(n.conns, c)
	n.mu.Unlock()
	select {
	case l.q <- &end{c: c, side: 1}:
		return c, nil
	case <-l.closed:
		return nil, &net.OpError{Op: "dial", Net: "sim", Err: os.NewSyscallError("connect", syscall.ECONNREFUSED)}
	}
}

func (c *Conn) bump(d int) {
	close(c.wake[d])
	c.wake[d] = make(chan struct{})
}

func (c *Conn) reset() {
	c.mu.Lock()
	c.rst = true
	c.bump(0)
	c.bump(1)
	c.mu.Unlock()
}

// --- client side (scheduler actions; never block) ----------------------------------------

// ClientWrite enqueues request bytes.
func (c *Conn) ClientWrite(b []byte) {
	c.mu.Lock()
	c.dir[0].pending = append(c.dir[0].pending, b...)
	c.mu.Unlock()
}

// ClientCloseWrite half-closes: FIN follows the pending bytes.
func (c *Conn) ClientCloseWrite() {
	c.mu.Lock()
	c.dir[0].finSent = true
	c.mu.Unlock()
}

// ClientReset aborts the connection: undelivered bytes are lost, the server sees ECONNRESET.
func (c *Conn) ClientReset() { c.reset() }

// ClientRead drains what has been delivered to the client so far.
func (c *Conn) ClientRead() (data []byte, eof bool, reset bool) {
	c.mu.Lock()
	defer c.mu.Unlock()
	data = c.dir[1].ready
	c.dir[1].ready = nil
	return data, c.dir[1].finRcvd, c.rst
}

// Pending returns undelivered byte counts and whether a FIN is in flight, per direction.
func (c *Conn) Pending(d int) (n int, fin bool) {
	c.mu.Lock()
	defer c.mu.Unlock()
	if c.rst {
		return 0, false
	}
	p := c.dir[d]
	return len(p.pending), p.finSent && !p.finRcvd
}

// Deliver moves up to n pending bytes of direction d to the reader (and the FIN once the
// queue is empty and fin is true). It returns the number of bytes moved.
func (c *Conn) Deliver(d, n int, fin bool) int {
	c.mu.Lock()
	defer c.mu.Unlock()
	if c.rst {
		return 0
	}
	p := c.dir[d]
	if n > len(p.pending) {
		n = len(p.pending)
	}
	p.ready = append(p.ready, p.pending[:n]...)
	p.pending = p.pending[n:]
	if fin && len(p.pending) == 0 && p.finSent {
		p.finRcvd = true
	}
	c.bump(d)
	return n
}

func (c *Conn) IsReset() bool {
	c.mu.Lock()
	defer c.mu.Unlock()
	return c.rst
}

// ServerClosed reports whether the server end has closed its side.
func (c *Conn) ServerClosed() bool {
	c.mu.Lock()
	defer c.mu.Unlock()
	return c.dir[1].finSent
}

// --- server side: net.Conn ---------------------------------------------------------------

type timeoutErr struct{}

func (timeoutErr) Error() string   { return "i/o timeout" }
func (timeoutErr) Timeout() bool   { return true }
func (timeoutErr) Temporary() bool { return true }
func (timeoutErr) Is(t error) bool { return t == os.ErrDeadlineExceeded }

func (e *end) Read(b []byte) (int, error) {
	c := e.c
	for {
		c.mu.Lock()
		if e.closed {
			c.mu.Unlock()
			return 0, net.ErrClosed
		}
		p := c.dir[1-e.side]
		if c.rst {
			c.mu.Unlock()
			return 0, &net.OpError{Op: "read", Net: "sim", Err: os.NewSyscallError("read", syscall.ECONNRESET)}
		}
		if len(p.ready) > 0 && len(b) > 0 {
			n := copy(b, p.ready)
			p.ready = p.ready[n:]
			c.mu.Unlock()
			return n, nil
		}
		if p.finRcvd {
			c.mu.Unlock()
			return 0, io.EOF
		}
		dl := e.deadline
		wake := c.wake[1-e.side]
		c.mu.Unlock()
		if len(b) == 0 {
			return 0, nil
		}
		if !dl.IsZero() {
			d := time.Until(dl)
			if d <= 0 {
				return 0, &net.OpError{Op: "read", Net: "sim", Err: timeoutErr{}}
			}
			t := time.NewTimer(d)
			select {
			case <-wake:
				t.Stop()
			case <-t.C:
			}
			continue
		}
		<-wake
	}
}

func (e *end) Write(b []byte) (int, error) {
	c := e.c
	c.mu.Lock()
	defer c.mu.Unlock()
	if e.closed {
		return 0, net.ErrClosed
	}
	if c.rst {
		return 0, &net.OpError{Op: "write", Net: "sim", Err: os.NewSyscallError("write", syscall.EPIPE)}
	}
	p := c.dir[e.side]
	if p.finSent {
		return 0, &net.OpError{Op: "write", Net: "sim", Err: os.NewSyscallError("write", syscall.EPIPE)}
	}
	p.pending = append(p.pending, b...)
	return len(b), nil
}

func (e *end) Close() error {
	c := e.c
	c.mu.Lock()
	defer c.mu.Unlock()
	if e.closed {
		return nil
	}
	e.closed = true
	c.dir[e.side].finSent = true
	// wake a reader of this end blocked in Read (it must see ErrClosed)
	c.bump(1 - e.side)
	return nil
}

// CloseWrite lets net/http half-close.
func (e *end) CloseWrite() error {
	c := e.c
	c.mu.Lock()
	defer c.mu.Unlock()
	c.dir[e.side].finSent = true
	return nil
}

func (e *end) LocalAddr() net.Addr  { return Addr(e.c.Addr) }
func (e *end) RemoteAddr() net.Addr { return Addr(fmt.Sprintf("client-%d", e.c.ID)) }

func (e *end) SetDeadline(t time.Time) error {
	e.SetReadDeadline(t)
	return nil
}

func (e *end) SetReadDeadline(t time.Time) error {
	c := e.c
	c.mu.Lock()
	e.deadline = t
	c.bump(1 - e.side) // a blocked reader re-evaluates its deadline
	c.mu.Unlock()
	return nil
}

func (e *end) SetWriteDeadline(time.Time) error { return nil }

// Conns returns all connections in creation order.
func (n *Net) Conns() []*Conn {
	n.mu.Lock()
	defer n.mu.Unlock()
	out := make([]*Conn, len(n.conns))
	copy(out, n.conns)
	return out
}

// BoundAddrs returns the currently bound addresses, sorted.
func (n *Net) BoundAddrs() []string {
	n.mu.Lock()
	defer n.mu.Unlock()
	var out []string
	for a := range n.listeners {
		out = append(out, a)
	}
	sort.Strings(out)
	return out
}

var _ net.Conn = (*end)(nil)
var _ net.Listener = (*Listener)(nil)
var _ = errors.New
