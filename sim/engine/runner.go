package engine

import (
	"bytes"
	"encoding/json"
	"flag"
	"fmt"
	"os"
	"os/exec"
	"path/filepath"
	"regexp"
	"runtime"
	"runtime/debug"
	"sort"
	"strconv"
	"strings"
	"sync"
	"sync/atomic"
	"time"

	"verifsim/tape"
)

type Options struct {
	Prop       string
	Tier       string
	Seed       uint64
	Worker     int
	NWorkers   int
	Out        string
	ReplayPath string
	Evidence   string
	ReplayDir  string
	Known      string
	RunsOver   int
	BudgetOver int
	Hashes     bool // record per-run log hashes (determinism self-test)
	OneRun     int64
	Trace      bool
}

func ParseFlags() *Options {
	o := &Options{}
	flag.StringVar(&o.Prop, "prop", "", "property id")
	flag.StringVar(&o.Tier, "tier", "quick", "quick|thorough")
	seed := flag.Uint64("seed", 0, "seed (default: VERIF_SEED or 1)")
	flag.IntVar(&o.Worker, "worker", -1, "worker index (internal)")
	flag.IntVar(&o.NWorkers, "nworkers", 0, "number of workers (internal)")
	flag.StringVar(&o.Out, "out", "", "worker output file (internal)")
	flag.StringVar(&o.ReplayPath, "replay", "", "replay file")
	flag.StringVar(&o.Evidence, "evidence", "", "evidence file to write")
	flag.StringVar(&o.ReplayDir, "replays", "", "directory for replay files")
	flag.StringVar(&o.Known, "known", "", "KNOWN_FINDINGS file")
	flag.IntVar(&o.RunsOver, "runs", 0, "override number of runs")
	flag.IntVar(&o.BudgetOver, "budget", 0, "override budget seconds")
	flag.BoolVar(&o.Hashes, "hashes", false, "print per-run event-log hashes and exit (determinism self-test)")
	flag.Int64Var(&o.OneRun, "one", -1, "execute exactly this run index with a kept trace and print it")
	flag.BoolVar(&o.Trace, "trace", false, "print the trace on replay")
	flag.Parse()
	o.Seed = *seed
	if o.Seed == 0 {
		if s := os.Getenv("VERIF_SEED"); s != "" {
			if v, err := strconv.ParseUint(s, 10, 64); err == nil {
				o.Seed = v
			} else if v2, err2 := strconv.ParseInt(s, 10, 64); err2 == nil {
				o.Seed = uint64(v2)
			}
		}
	}
	if o.Seed == 0 {
		o.Seed = 1
	}
	if t := os.Getenv("VERIF_TIER"); t != "" && !flagSet("tier") {
		o.Tier = t
	}
	return o
}

func flagSet(name string) bool {
	set := false
	flag.Visit(func(f *flag.Flag) {
		if f.Name == name {
			set = true
		}
	})
	return set
}

func fatal2(format string, a ...any) {
	fmt.Fprintf(os.Stderr, "MACHINERY-ERROR: "+format+"\n", a...)
	os.Exit(2)
}

// execRun runs one tape through the check, converting a panic in harness or repository code
// that escapes the check's own handling into a machinery error (never a violation).
func execRun(chk Check, c *Ctx) (v *Violation, perr error) {
	defer func() {
		if r := recover(); r != nil {
			st := string(debug.Stack())
			if fr := repoFrameFirst(st); fr != "" {
				// the repository's own code panicked while the harness called it: that is behaviour
				// of the system under test, not of the machinery
				v = &Violation{Class: chk.ID() + "/panic-in-repository-code", Detail: fmt.Sprintf("%v (in %s)", r, fr)}
				return
			}
			perr = fmt.Errorf("panic in run %d: %v\n%s", c.Run, r, st)
		}
	}()
	return chk.Run(c), nil
}

// repoFrameFirst scans a Go stack trace from the top and returns the first repository frame if
// one occurs before any harness frame ("" otherwise). Frames of the runtime, the standard
// library and third-party libraries are skipped.
func repoFrameFirst(stack string) string {
	f, _ := classifyStack(stack)
	return f
}

// classifyStack returns the first repository frame of a goroutine stack if it comes before any harness
// frame; harness reports whether a harness frame came first.
func classifyStack(stack string) (frame string, harness bool) {
	for _, ln := range strings.Split(stack, "\n") {
		if strings.HasPrefix(ln, "\t") || ln == "" {
			continue
		}
		switch {
		case strings.HasPrefix(ln, "worldcoin/gnark-mbu/simyield"):
			continue
		case strings.HasPrefix(ln, "worldcoin/gnark-mbu/"), strings.HasPrefix(ln, "main."):
			if i := strings.LastIndexByte(ln, '('); i > 0 {
				return ln[:i], false
			}
			return ln, false
		case strings.HasPrefix(ln, "verifsim/"):
			if strings.HasPrefix(ln, "verifsim/engine.execRun") {
				continue
			}
			return "", true
		}
	}
	return "", false
}

var createdByRe = regexp.MustCompile(`(?m)^created by .* in goroutine (\d+)$`)

// goroutineBlock returns the stack of goroutine n from a GOTRACEBACK=all dump.
func goroutineBlock(out string, n string) string {
	i := strings.Index(out, "\ngoroutine "+n+" [")
	if i < 0 {
		return ""
	}
	rest := out[i+1:]
	if k := strings.Index(rest, "\n\n"); k >= 0 {
		rest = rest[:k]
	}
	return rest
}

// crashInfo extracts the panic message and the deciding repository frame from the output of
// a process that died. When the panicking goroutine consists of library frames only (a worker
// goroutine spawned inside a library call), the goroutine that created it decides, and so on up the
// chain: a library worker started by a repository function that the harness called is the
// repository's crash; one started by a library function the harness called directly is not.
func crashInfo(out string) (msg, frame string) {
	i := strings.Index(out, "panic: ")
	j := strings.Index(out, "fatal error: ")
	if i < 0 || (j >= 0 && j < i) {
		i = j
	}
	if i < 0 {
		return "", ""
	}
	rest := out[i:]
	msg = rest
	if k := strings.IndexByte(rest, '\n'); k >= 0 {
		msg = rest[:k]
	}
	// only the first goroutine's stack (the one that panicked)
	first := rest
	if k := strings.Index(rest, "\n\ngoroutine "); k >= 0 {
		if k2 := strings.Index(rest[k+2:], "\n\n"); k2 >= 0 {
			first = rest[:k+2+k2]
		}
	}
	cur := first
	for depth := 0; depth < 6; depth++ {
		f, harness := classifyStack(cur)
		if f != "" {
			if depth > 0 {
				f += " (which started the library goroutine that panicked)"
			}
			return msg, f
		}
		if harness {
			return msg, ""
		}
		m := createdByRe.FindStringSubmatch(cur)
		if m == nil {
			return msg, ""
		}
		cur = goroutineBlock(rest, m[1])
		if cur == "" {
			return msg, ""
		}
	}
	return msg, ""
}

// Main is the entry point shared by all properties.
func Main(chk Check, o *Options) {
	switch {
	case o.ReplayPath != "":
		os.Exit(replayMain(chk, o))
	case o.Worker >= 0:
		os.Exit(workerMain(chk, o))
	case o.OneRun >= 0:
		os.Exit(oneRunMain(chk, o))
	default:
		os.Exit(coordinatorMain(chk, o))
	}
}

func plan(chk Check, o *Options) Plan {
	p := chk.Plan(o.Tier)
	if o.RunsOver > 0 {
		p.Runs = o.RunsOver
	}
	if o.BudgetOver > 0 {
		p.BudgetSec = o.BudgetOver
	}
	if p.Workers <= 0 {
		p.Workers = 1
	}
	if p.PerWorkerParallel <= 0 {
		p.PerWorkerParallel = 1
	}
	if p.ShrinkSec <= 0 {
		p.ShrinkSec = 60
	}
	return p
}

func oneRunMain(chk Check, o *Options) int {
	p := plan(chk, o)
	if err := chk.Init(o.Tier, int(uint64(o.OneRun)%uint64(p.Workers)), p.Workers, o.Seed); err != nil {
		fatal2("init: %v", err)
	}
	c := &Ctx{T: tape.New(o.Seed, uint64(o.OneRun)), S: NewStats(), Log: &EvLog{}, Tier: o.Tier, Seed: o.Seed, Run: uint64(o.OneRun)}
	c.Log.Keep(true)
	v, err := execRun(chk, c)
	if err != nil {
		fatal2("%v", err)
	}
	for _, l := range c.Log.Lines() {
		fmt.Println(l)
	}
	fmt.Printf("run=%d hash=%s tape=%d steps=%d\n", o.OneRun, c.Log.Hash(), c.T.Pos(), c.Log.Len())
	if v != nil {
		fmt.Printf("violation class=%s detail=%s\n", v.Class, v.Detail)
		return 1
	}
	return 0
}

func workerMain(chk Check, o *Options) int {
	start := time.Now()
	p := plan(chk, o)
	out := &WorkerOut{Stats: NewStats()}
	if o.Hashes {
		out.RunHashes = map[string]string{}
	}
	write := func() {
		out.WallS = time.Since(start).Seconds()
		if err := writeJSONAtomic(o.Out, out); err != nil {
			fatal2("worker write: %v", err)
		}
	}
	if err := chk.Init(o.Tier, o.Worker, o.NWorkers, o.Seed); err != nil {
		out.Err = "init: " + err.Error()
		write()
		return 2
	}
	initDone := time.Now()
	// watchdog: a run that makes no progress for 20 minutes is machinery trouble (exit 2), never a violation
	var lastProgress atomic.Int64
	lastProgress.Store(time.Now().Unix())
	go func() {
		for {
			time.Sleep(20 * time.Second)
			if time.Now().Unix()-lastProgress.Load() > 20*60 {
				buf := make([]byte, 1<<20)
				n := runtime.Stack(buf, true)
				fmt.Fprintf(os.Stderr, "WATCHDOG: no run completed for 20 minutes; goroutines:\n%s\n", buf[:n])
				out.Err = "watchdog: no run completed for 20 minutes"
				writeJSONAtomic(o.Out, out)
				os.Exit(2)
			}
		}
	}()
	perClass := map[string]int{}
	var mu sync.Mutex
	var wg sync.WaitGroup
	sem := make(chan struct{}, p.PerWorkerParallel)
	var firstErr error
	for i := o.Worker; i < p.Runs; i += o.NWorkers {
		if !p.FixedRuns && p.BudgetSec > 0 && time.Since(initDone) > time.Duration(p.BudgetSec)*time.Second {
			break
		}
		mu.Lock()
		stop := firstErr != nil
		mu.Unlock()
		if stop {
			break
		}
		sem <- struct{}{}
		wg.Add(1)
		go func(i int) {
			defer wg.Done()
			defer func() { <-sem }()
			c := &Ctx{T: tape.New(o.Seed, uint64(i)), S: out.Stats, Log: &EvLog{}, Tier: o.Tier, Seed: o.Seed, Run: uint64(i)}
			if td := os.Getenv("VERIF_TRACE_DIR"); td != "" {
				// determinism self-test diagnosis: keep every run's event log so that a hash mismatch
				// between two processes can be diffed (never set by a registered check)
				c.Log.Keep(true)
				defer func() {
					os.WriteFile(filepath.Join(td, fmt.Sprintf("%s-run%d.trace", o.Prop, i)), []byte(strings.Join(c.Log.Lines(), "\n")+"\n"), 0o644)
				}()
			}
			if p.PerWorkerParallel == 1 {
				os.WriteFile(o.Out+".cur", []byte(strconv.Itoa(i)), 0o644)
			}
			v, err := execRun(chk, c)
			mu.Lock()
			defer mu.Unlock()
			if err != nil {
				if firstErr == nil {
					firstErr = err
				}
				return
			}
			out.Runs++
			lastProgress.Store(time.Now().Unix())
			if out.RunHashes != nil {
				out.RunHashes[strconv.Itoa(i)] = c.Log.Hash()
			}
			if v != nil && perClass[v.Class] < 2 && len(out.Violations) < 40 {
				perClass[v.Class]++
				out.Violations = append(out.Violations, FoundViolation{Run: uint64(i), V: *v, Tape: c.T.Recorded(), LogHash: c.Log.Hash()})
			} else if v != nil {
				out.Stats.Count("violations_not_recorded")
			}
			if v != nil {
				out.Stats.Count("violating_runs")
			}
		}(i)
	}
	wg.Wait()
	if firstErr != nil {
		out.Err = firstErr.Error()
		write()
		return 2
	}
	if err := chk.Finish(out.Stats, o.Tier); err != nil {
		out.Err = "finish: " + err.Error()
		write()
		return 2
	}
	write()
	return 0
}

func coordinatorMain(chk Check, o *Options) int {
	start := time.Now()
	p := plan(chk, o)
	id := chk.ID()
	fmt.Printf("check %s tier=%s seed=%d runs<=%d workers=%d budget=%ds\n", id, o.Tier, o.Seed, p.Runs, p.Workers, p.BudgetSec)
	tmp, err := os.MkdirTemp("", "simcheck-"+id+"-")
	if err != nil {
		fatal2("tmp: %v", err)
	}
	defer os.RemoveAll(tmp)
	self, _ := os.Executable()
	type wres struct {
		out     *WorkerOut
		err     error
		log     string
		fullLog string
	}
	res := make([]wres, p.Workers)
	var wg sync.WaitGroup
	for w := 0; w < p.Workers; w++ {
		wg.Add(1)
		go func(w int) {
			defer wg.Done()
			outp := filepath.Join(tmp, fmt.Sprintf("w%d.json", w))
			args := []string{"-prop", id, "-tier", o.Tier, "-seed", strconv.FormatUint(o.Seed, 10),
				"-worker", strconv.Itoa(w), "-nworkers", strconv.Itoa(p.Workers), "-out", outp}
			if o.RunsOver > 0 {
				args = append(args, "-runs", strconv.Itoa(o.RunsOver))
			}
			if o.BudgetOver > 0 {
				args = append(args, "-budget", strconv.Itoa(o.BudgetOver))
			}
			if o.Hashes {
				args = append(args, "-hashes")
			}
			cmd := exec.Command(self, args...)
			var eb bytes.Buffer
			cmd.Stderr = &eb
			cmd.Stdout = &eb
			cmd.Env = append(os.Environ(), "GOTRACEBACK=all") // a crash dump names the creator of a library goroutine
			e := cmd.Run()
			r := wres{err: e, log: tail(eb.String(), 4000), fullLog: tail(eb.String(), 2000000)}
			if b, rerr := os.ReadFile(outp); rerr == nil {
				var wo WorkerOut
				if jerr := json.Unmarshal(b, &wo); jerr == nil {
					r.out = &wo
				}
			}
			res[w] = r
		}(w)
	}
	wg.Wait()

	total := NewStats()
	runs := 0
	var found, crashes []FoundViolation
	hashes := map[string]string{}
	for w, r := range res {
		if r.out == nil && r.err != nil {
			// the worker process died: a crash inside a repository goroutine is a finding, anything else machinery trouble
			msg, frame := crashInfo(r.fullLog)
			cur, cerr := os.ReadFile(filepath.Join(tmp, fmt.Sprintf("w%d.json.cur", w)))
			if frame != "" && cerr == nil {
				run, _ := strconv.ParseUint(strings.TrimSpace(string(cur)), 10, 64)
				crashes = append(crashes, FoundViolation{Run: run, V: Violation{Class: id + "/process-crash/" + sanitize(msg), Detail: msg + " in " + frame}})
				continue
			}
		}
		if r.out == nil || r.err != nil || r.out.Err != "" {
			msg := ""
			if r.out != nil {
				msg = r.out.Err
			}
			fatal2("worker %d failed: err=%v msg=%s\n--- worker output tail ---\n%s", w, r.err, msg, r.log)
		}
		total.merge(r.out.Stats)
		runs += r.out.Runs
		found = append(found, r.out.Violations...)
		for k, v := range r.out.RunHashes {
			hashes[k] = v
		}
	}
	if o.Hashes {
		for _, k := range sortedKeysNumeric(hashes) {
			fmt.Printf("HASH run=%s %s\n", k, hashes[k])
		}
	}
	sort.Slice(found, func(i, j int) bool {
		if found[i].V.Class != found[j].V.Class {
			return found[i].V.Class < found[j].V.Class
		}
		if len(found[i].Tape) != len(found[j].Tape) {
			return len(found[i].Tape) < len(found[j].Tape)
		}
		return found[i].Run < found[j].Run
	})

	findings, ferr := LoadFindings(o.Known)
	if ferr != nil {
		fatal2("%v", ferr)
	}
	knownSeen := map[string]int{}
	var fresh []FoundViolation
	seenClass := map[string]bool{}
	for _, fv := range found {
		if f := MatchOpen(findings, id, fv.V); f != nil {
			knownSeen[f.Text]++
			continue
		}
		if seenClass[fv.V.Class] {
			continue
		}
		seenClass[fv.V.Class] = true
		fresh = append(fresh, fv)
	}
	for _, k := range sortedKeys(knownSeen) {
		fmt.Printf("KNOWN-FINDING: property=%s %s (seen in %d recorded runs)\n", id, k, knownSeen[k])
	}

	nviol := 0
	var violationLines []string
	if len(fresh) > 0 {
		if len(fresh) > 4 {
			fresh = fresh[:4]
		}
		for _, fv := range fresh {
			// minimisation needs the check initialised exactly as the worker that ran this run was
			if err := chk.Init(o.Tier, int(fv.Run%uint64(p.Workers)), p.Workers, o.Seed); err != nil {
				fatal2("init for minimisation: %v", err)
			}
			rf := minimise(chk, o, p, fv)
			rf.Worker, rf.NWorkers = int(fv.Run%uint64(p.Workers)), p.Workers
			os.MkdirAll(o.ReplayDir, 0o755)
			name := fmt.Sprintf("%s-%s-seed%d-run%d.json", id, sanitize(rf.Violation.Class), o.Seed, fv.Run)
			path := filepath.Join(o.ReplayDir, name)
			if err := writeJSONAtomic(path, rf); err != nil {
				fatal2("write replay: %v", err)
			}
			// fresh-process replay before reporting
			replayChild := func() (int, []byte) {
				cmd := exec.Command(self, "-prop", id, "-tier", o.Tier, "-replay", path)
				outb, _ := cmd.CombinedOutput()
				return cmd.ProcessState.ExitCode(), outb
			}
			code, outb := replayChild()
			if code != 1 && !rf.Violation.Uncontrolled {
				rf.Tape, rf.Minimised = fv.Tape, false // the tape as recorded by the worker, not a shrunk one
				// The run does not reproduce on its own: the code under test may carry state from one call to
				// the next (a process-wide cache or pool). Replay the worker's earlier runs first, then shorten
				// that history while the same class still reproduces in a fresh process.
				var hist []uint64
				for i := uint64(rf.Worker); i < fv.Run; i += uint64(p.Workers) {
					hist = append(hist, i)
				}
				rf.History = hist
				writeJSONAtomic(path, rf)
				if code, outb = replayChild(); code == 1 {
					deadline := time.Now().Add(time.Duration(p.ShrinkSec) * time.Second)
					for k := 1; k < len(hist) && time.Now().Before(deadline); k *= 2 {
						rf.History = hist[len(hist)-k:]
						writeJSONAtomic(path, rf)
						if c2, _ := replayChild(); c2 == 1 {
							break
						}
						rf.History = hist
						writeJSONAtomic(path, rf)
					}
					fmt.Printf("note: run %d reproduces only after %d earlier run(s) of its worker in the same process: the code under test keeps state across calls\n", fv.Run, len(rf.History))
				}
			}
			if code == 3 && len(rf.History) > 0 {
				// The fresh process does violate the property at this run, but in another way than the worker
				// saw (state shared between calls was corrupted differently, e.g. because the worker had been
				// restarted after a crash and carried a shorter history). What is reported must be what the
				// replay file reproduces: adopt the class the fresh process shows, and require it twice.
				if m := regexp.MustCompile(`replay: different violation class (\S+) \(expected [^)]*\): (.*)`).FindStringSubmatch(string(outb)); m != nil && strings.HasPrefix(m[1], id+"/") {
					seenAs := rf.Violation.Class
					rf.Violation = Violation{Class: m[1], Detail: m[2] + " [the worker first saw this run fail as " + seenAs + "]"}
					rf.LogHash = ""
					writeJSONAtomic(path, rf)
					if code, outb = replayChild(); code == 1 {
						fmt.Printf("note: run %d fails as %s in a fresh process (the worker saw %s): history-dependent corruption of shared state\n", fv.Run, rf.Violation.Class, seenAs)
					}
				}
			}
			if code != 1 {
				fmt.Printf("REPLAY-DIVERGED property=%s replay=%s exit=%d\n%s\n", id, path, code, tail(string(outb), 2000))
				if nviol > 0 {
					// other violations of this run were reproduced in fresh processes: report those; this one is
					// kept out of the verdict because its replay file does not reproduce it
					fmt.Printf("note: not reported (no reproducing replay file); %d reproduced violation(s) stand\n", nviol)
					os.Remove(path)
					continue
				}
				fatal2("fresh-process replay of %s did not reproduce the violation", path)
			}
			nviol++
			violationLines = append(violationLines, fmt.Sprintf("VIOLATION property=%s replay=%s", id, path))
			fmt.Printf("violation class=%s\n  detail: %s\n  minimised tape %d -> %d draws\n", rf.Violation.Class, rf.Violation.Detail, rf.OrigTape, len(rf.Tape))
		}
	}

	crashSeen := map[string]bool{}
	for _, fv := range crashes {
		if f := MatchOpen(findings, id, fv.V); f != nil {
			fmt.Printf("KNOWN-FINDING: property=%s %s\n", id, f.Text)
			knownSeen[f.Text]++
			continue
		}
		if crashSeen[fv.V.Class] || nviol >= 4 {
			continue
		}
		crashSeen[fv.V.Class] = true
		rf := &ReplayFile{Property: id, Tier: o.Tier, Seed: o.Seed, Run: fv.Run, Violation: fv.V, Toolchain: runtime.Version(),
			Worker: int(fv.Run % uint64(p.Workers)), NWorkers: p.Workers, Crash: true, Generate: true}
		os.MkdirAll(o.ReplayDir, 0o755)
		path := filepath.Join(o.ReplayDir, fmt.Sprintf("%s-%s-seed%d-run%d.json", id, sanitize(fv.V.Class), o.Seed, fv.Run))
		if err := writeJSONAtomic(path, rf); err != nil {
			fatal2("write replay: %v", err)
		}
		cmd := exec.Command(self, "-prop", id, "-tier", o.Tier, "-replay", path)
		outb, _ := cmd.CombinedOutput()
		if code := cmd.ProcessState.ExitCode(); code != 1 {
			fmt.Printf("REPLAY-DIVERGED property=%s replay=%s exit=%d\n%s\n", id, path, code, tail(string(outb), 2000))
			fatal2("fresh-process replay of crash %s did not reproduce it", path)
		}
		nviol++
		violationLines = append(violationLines, fmt.Sprintf("VIOLATION property=%s replay=%s", id, path))
		fmt.Printf("violation class=%s\n  detail: %s\n  (process crash: replay regenerates run %d from the seed; not minimised)\n", fv.V.Class, fv.V.Detail, fv.Run)
	}

	wall := time.Since(start).Seconds()
	faults, probes, other := splitCounters(total.Counters)
	cov := map[string]any{
		"evaluations":          total.Evaluations,
		"distinct_nontrivial":  len(total.Distinct),
		"rule":                 chk.Rule(),
		"samples":              total.Samples,
		"runs":                 runs,
		"runs_per_hour":        int(float64(runs) / wall * 3600),
		"first_run_seed":       o.Seed,
		"scheduler_steps":      total.Steps,
		"simulated_seconds":    total.SimSeconds,
		"faults_fired":         faults,
		"probes":               probes,
		"counters":             other,
		"real_components":      chk.Real(),
		"simulated_components": chk.Simulated(),
		"known_findings_seen":  sortedKeys(knownSeen),
		"workers":              p.Workers,
		"exhaustive":           false,
	}
	if len(total.Samples) == 0 {
		cov["samples"] = []any{"no sample recorded"}
	}
	ev := Evidence{PropertyID: id, Tier: o.Tier, Seed: int64(o.Seed), Level: chk.Level(), Coverage: cov,
		Assumptions: append(chk.Assumptions(), "harness toolchain "+runtime.Version()+" (repository targets go1.23); seeded search, not proof"),
		WallS:       wall, Violations: nviol}
	if o.Evidence != "" {
		os.MkdirAll(filepath.Dir(o.Evidence), 0o755)
		if err := writeJSONAtomic(o.Evidence, ev); err != nil {
			fatal2("write evidence: %v", err)
		}
	}
	fmt.Printf("done %s: runs=%d evaluations=%d distinct=%d wall=%.1fs violations=%d known=%d\n", id, runs, total.Evaluations, len(total.Distinct), wall, nviol, len(knownSeen))
	for _, k := range sortedKeys(faults) {
		fmt.Printf("  fault %-40s fired %d\n", k, faults[k])
	}
	for _, k := range sortedKeys(probes) {
		fmt.Printf("  probe %-40s hit   %d\n", k, probes[k])
	}
	for _, l := range violationLines {
		fmt.Println(l)
	}
	if nviol > 0 {
		return 1
	}
	if runs == 0 {
		fatal2("no run executed")
	}
	return 0
}

func sortedKeysNumeric(m map[string]string) []string {
	ks := make([]string, 0, len(m))
	for k := range m {
		ks = append(ks, k)
	}
	sort.Slice(ks, func(i, j int) bool {
		a, _ := strconv.Atoi(ks[i])
		b, _ := strconv.Atoi(ks[j])
		return a < b
	})
	return ks
}

func tail(s string, n int) string {
	if len(s) > n {
		return "..." + s[len(s)-n:]
	}
	return s
}

func sanitize(s string) string {
	var b strings.Builder
	for _, r := range s {
		switch {
		case r >= 'a' && r <= 'z', r >= 'A' && r <= 'Z', r >= '0' && r <= '9', r == '-', r == '_':
			b.WriteRune(r)
		default:
			b.WriteByte('_')
		}
	}
	out := b.String()
	if len(out) > 80 {
		out = out[:80]
	}
	return out
}

// runTape executes one replayed tape and returns its violation (nil if none).
func runTape(chk Check, o *Options, run uint64, vals []uint32, keep bool) (*Violation, *Ctx) {
	// library code under test prints to stdout (gnark schema notes); keep the coordinator's output clean
	if dn, err := os.OpenFile(os.DevNull, os.O_WRONLY, 0); err == nil {
		saved := os.Stdout
		os.Stdout = dn
		defer func() { os.Stdout = saved; dn.Close() }()
	}
	c := &Ctx{T: tape.Replay(vals), S: NewStats(), Log: &EvLog{}, Tier: o.Tier, Seed: o.Seed, Run: run, Replay: true}
	c.Log.Keep(keep)
	v, err := execRun(chk, c)
	if err != nil {
		// a panic while replaying a shrunk candidate is "not the same violation"
		return nil, c
	}
	return v, c
}

// minimise shrinks the tape while the same violation class recurs.
func minimise(chk Check, o *Options, p Plan, fv FoundViolation) *ReplayFile {
	if fv.V.Uncontrolled {
		return &ReplayFile{Property: chk.ID(), Tier: o.Tier, Seed: o.Seed, Run: fv.Run, Tape: fv.Tape, Violation: fv.V,
			Toolchain: runtime.Version(), OrigTape: len(fv.Tape)}
	}
	deadline := time.Now().Add(time.Duration(p.ShrinkSec) * time.Second)
	best := append([]uint32(nil), fv.Tape...)
	class := fv.V.Class
	same := func(cand []uint32) (bool, []uint32) {
		if time.Now().After(deadline) {
			return false, nil
		}
		v, c := runTape(chk, o, fv.Run, cand, false)
		if v != nil && v.Class == class {
			used := c.T.Recorded()
			if len(used) < len(cand) {
				return true, used
			}
			return true, cand
		}
		return false, nil
	}
	// sanity: the recorded tape must reproduce in this process
	if ok, used := same(best); ok {
		best = used
	} else {
		fmt.Printf("note: in-process re-execution of run %d did not reproduce class %s; reporting unminimised\n", fv.Run, class)
		return finalReplay(chk, o, fv, best, false)
	}
	trim := func() {
		for len(best) > 0 && best[len(best)-1] == 0 {
			best = best[:len(best)-1]
		}
	}
	trim()
	improved := true
	for improved && time.Now().Before(deadline) {
		improved = false
		// 1. delete chunks
		for size := len(best) / 2; size >= 1 && time.Now().Before(deadline); size /= 2 {
			for i := 0; i+size <= len(best) && time.Now().Before(deadline); {
				cand := append(append([]uint32(nil), best[:i]...), best[i+size:]...)
				if ok, used := same(cand); ok {
					best = used
					trim()
					improved = true
				} else {
					i += size
				}
			}
		}
		// 2. zero, then halve individual values
		for i := 0; i < len(best) && time.Now().Before(deadline); i++ {
			if best[i] == 0 {
				continue
			}
			cand := append([]uint32(nil), best...)
			cand[i] = 0
			if ok, used := same(cand); ok {
				best = used
				trim()
				improved = true
				continue
			}
			for v := best[i] / 2; v > 0 && time.Now().Before(deadline); v /= 2 {
				cand = append([]uint32(nil), best...)
				cand[i] = v
				if ok, used := same(cand); ok {
					best = used
					improved = true
				} else {
					break
				}
				if i >= len(best) {
					break
				}
			}
		}
	}
	return finalReplay(chk, o, fv, best, true)
}

func finalReplay(chk Check, o *Options, fv FoundViolation, vals []uint32, minimised bool) *ReplayFile {
	v, c := runTape(chk, o, fv.Run, vals, true)
	rf := &ReplayFile{Property: chk.ID(), Tier: o.Tier, Seed: o.Seed, Run: fv.Run, Tape: vals, Violation: fv.V,
		LogHash: c.Log.Hash(), Trace: c.Log.Lines(), Toolchain: runtime.Version(), Minimised: minimised, OrigTape: len(fv.Tape)}
	if v != nil {
		rf.Violation = *v
	}
	if len(rf.Trace) > 400 {
		rf.Trace = rf.Trace[len(rf.Trace)-400:]
	}
	return rf
}

func replayMain(chk Check, o *Options) int {
	b, err := os.ReadFile(o.ReplayPath)
	if err != nil {
		fatal2("read replay: %v", err)
	}
	var rf ReplayFile
	if err := json.Unmarshal(b, &rf); err != nil {
		fatal2("parse replay: %v", err)
	}
	if rf.Property != chk.ID() {
		fatal2("replay file is for %s, not %s", rf.Property, chk.ID())
	}
	o.Tier = rf.Tier
	o.Seed = rf.Seed
	if rf.Crash && os.Getenv("SIMCHECK_CRASH_CHILD") == "" {
		self, _ := os.Executable()
		cmd := exec.Command(self, "-prop", chk.ID(), "-replay", o.ReplayPath)
		cmd.Env = append(os.Environ(), "SIMCHECK_CRASH_CHILD=1", "GOTRACEBACK=all")
		outb, _ := cmd.CombinedOutput()
		msg, frame := crashInfo(string(outb))
		if frame != "" && chk.ID()+"/process-crash/"+sanitize(msg) == rf.Violation.Class {
			fmt.Printf("replay: reproduced process crash: %s in %s\n", msg, frame)
			fmt.Printf("VIOLATION property=%s replay=%s\n", chk.ID(), o.ReplayPath)
			return 1
		}
		fmt.Printf("replay: the process did not crash the same way (exit %d)\n%s\n", cmd.ProcessState.ExitCode(), tail(string(outb), 1500))
		if cmd.ProcessState.ExitCode() == 0 {
			return 0
		}
		return 3
	}
	if rf.NWorkers <= 0 {
		rf.NWorkers = 1
	}
	if err := chk.Init(o.Tier, rf.Worker, rf.NWorkers, o.Seed); err != nil {
		fatal2("init: %v", err)
	}
	var v *Violation
	var c *Ctx
	if rf.Violation.Uncontrolled {
		// uncontrolled companion mode: re-run the scenario up to 5 times, reproduce the class
		for attempt := 0; attempt < 5; attempt++ {
			v, c = runTape(chk, o, rf.Run, rf.Tape, true)
			if v != nil && v.Class == rf.Violation.Class {
				fmt.Printf("replay (uncontrolled mode, attempt %d): reproduced class=%s\n  %s\n", attempt+1, v.Class, v.Detail)
				fmt.Printf("VIOLATION property=%s replay=%s\n", chk.ID(), o.ReplayPath)
				return 1
			}
		}
		fmt.Printf("replay (uncontrolled mode): class %s not reproduced in 5 attempts\n", rf.Violation.Class)
		return 0
	}
	for _, hr := range rf.History {
		hc := &Ctx{T: tape.New(o.Seed, hr), S: NewStats(), Log: &EvLog{}, Tier: o.Tier, Seed: o.Seed, Run: hr, Replay: true}
		func() {
			if dn, err := os.OpenFile(os.DevNull, os.O_WRONLY, 0); err == nil {
				saved := os.Stdout
				os.Stdout = dn
				defer func() { os.Stdout = saved; dn.Close() }()
			}
			execRun(chk, hc) // outcome irrelevant: it only recreates the process state the finding run started from
		}()
	}
	if len(rf.History) > 0 {
		fmt.Printf("replay: re-executed %d earlier run(s) of worker %d first (history-dependent finding)\n", len(rf.History), rf.Worker)
	}
	if rf.Generate {
		c = &Ctx{T: tape.New(o.Seed, rf.Run), S: NewStats(), Log: &EvLog{}, Tier: o.Tier, Seed: o.Seed, Run: rf.Run, Replay: true}
		c.Log.Keep(true)
		var err error
		if v, err = execRun(chk, c); err != nil {
			fatal2("%v", err)
		}
	} else {
		v, c = runTape(chk, o, rf.Run, rf.Tape, true)
	}
	if o.Trace {
		for _, l := range c.Log.Lines() {
			fmt.Println(l)
		}
	}
	if v == nil {
		fmt.Printf("replay: no violation (expected class %s)\n", rf.Violation.Class)
		return 0
	}
	if v.Class != rf.Violation.Class {
		fmt.Printf("replay: different violation class %s (expected %s): %s\n", v.Class, rf.Violation.Class, v.Detail)
		return 3
	}
	if rf.LogHash != "" && c.Log.Hash() != rf.LogHash {
		// Same tape, same violation class, different event log: the system under test carries state
		// across runs of one process (e.g. a cache on the shared proving system), so a fresh process
		// does not see what the finding process saw before this run. The violation is reproduced;
		// the difference is reported, not hidden.
		fmt.Printf("replay: note: same violation class, but the event-log hash differs from the recorded one (%s vs %s): the code under test keeps state across runs\n", c.Log.Hash(), rf.LogHash)
	}
	fmt.Printf("replay: reproduced class=%s detail=%s log_hash=%s\n", v.Class, v.Detail, c.Log.Hash())
	fmt.Printf("VIOLATION property=%s replay=%s\n", chk.ID(), o.ReplayPath)
	return 1
}
