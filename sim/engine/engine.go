// Package engine is the shared run driver: seeded runs over worker processes, violation
// classification against KNOWN_FINDINGS, tape-level minimisation, fresh-process replay and
// evidence writing. Exit codes: 0 held, 1 unlisted violation, 2 machinery trouble.
package engine

import (
	"crypto/sha256"
	"encoding/hex"
	"encoding/json"
	"fmt"
	"os"
	"sort"
	"strings"
	"sync"

	"verifsim/tape"
)

// Violation is what a run reports. Class is the stable signature used for known-finding
// matching and for "same violation" during minimisation; Detail is free text.
type Violation struct {
	Class  string `json:"class"`
	Detail string `json:"detail"`
	// Uncontrolled marks a violation found in an explicitly non-deterministic companion mode
	// (race detector, real sockets): it is not minimised and its replay re-runs the scenario a
	// few times, reproducing the class, not the schedule.
	Uncontrolled bool `json:"uncontrolled,omitempty"`
}

func Violatef(class, format string, a ...any) *Violation {
	return &Violation{Class: class, Detail: fmt.Sprintf(format, a...)}
}

// Stats accumulates what a worker actually covered. Safe for concurrent use.
type Stats struct {
	mu          sync.Mutex
	Evaluations int64            `json:"evaluations"`
	Steps       int64            `json:"steps"`
	SimSeconds  float64          `json:"sim_seconds"`
	Counters    map[string]int64 `json:"counters"`
	Distinct    map[string]bool  `json:"distinct"`
	Samples     []any            `json:"samples"`
	maxSamples  int
}

func NewStats() *Stats {
	return &Stats{Counters: map[string]int64{}, Distinct: map[string]bool{}, maxSamples: 3}
}

func (s *Stats) Eval(n int64) { s.mu.Lock(); s.Evaluations += n; s.mu.Unlock() }
func (s *Stats) Step(n int64) { s.mu.Lock(); s.Steps += n; s.mu.Unlock() }
func (s *Stats) Sim(sec float64) {
	s.mu.Lock()
	s.SimSeconds += sec
	s.mu.Unlock()
}
func (s *Stats) Count(name string) { s.Add(name, 1) }
func (s *Stats) Add(name string, n int64) {
	s.mu.Lock()
	s.Counters[name] += n
	s.mu.Unlock()
}

// Touch makes a counter appear in evidence even when it stays at zero (reach probes).
func (s *Stats) Touch(names ...string) {
	s.mu.Lock()
	for _, n := range names {
		if _, ok := s.Counters[n]; !ok {
			s.Counters[n] = 0
		}
	}
	s.mu.Unlock()
}

// Seen records a distinct non-trivial case under the check's stated measure.
func (s *Stats) Seen(key string) {
	h := sha256.Sum256([]byte(key))
	k := hex.EncodeToString(h[:8])
	s.mu.Lock()
	s.Distinct[k] = true
	s.mu.Unlock()
}

// Sample keeps the first few cases written out in full.
func (s *Stats) Sample(v any) {
	s.mu.Lock()
	if len(s.Samples) < s.maxSamples {
		s.Samples = append(s.Samples, v)
	}
	s.mu.Unlock()
}
func (s *Stats) WantSample() bool {
	s.mu.Lock()
	defer s.mu.Unlock()
	return len(s.Samples) < s.maxSamples
}

func (s *Stats) merge(o *Stats) {
	s.Evaluations += o.Evaluations
	s.Steps += o.Steps
	s.SimSeconds += o.SimSeconds
	for k, v := range o.Counters {
		s.Counters[k] += v
	}
	for k := range o.Distinct {
		s.Distinct[k] = true
	}
	for _, x := range o.Samples {
		if len(s.Samples) < 4 {
			s.Samples = append(s.Samples, x)
		}
	}
}

// EvLog is the append-only event log of one run; its hash is the run's fingerprint.
// Nothing that depends on wall-clock, addresses, goroutine ids or proof bytes may enter it.
type EvLog struct {
	h     [32]byte
	n     int
	keep  bool
	lines []string
}

func (l *EvLog) Add(actor, action, detail string) {
	line := actor + "|" + action + "|" + detail
	hh := sha256.New()
	hh.Write(l.h[:])
	hh.Write([]byte(line))
	copy(l.h[:], hh.Sum(nil))
	l.n++
	if l.keep && len(l.lines) < 4000 {
		l.lines = append(l.lines, line)
	}
}
func (l *EvLog) Addf(actor, action, format string, a ...any) {
	l.Add(actor, action, fmt.Sprintf(format, a...))
}
func (l *EvLog) Hash() string    { return hex.EncodeToString(l.h[:8]) }
func (l *EvLog) Len() int        { return l.n }
func (l *EvLog) Lines() []string { return l.lines }
func (l *EvLog) Keep(b bool)     { l.keep = b }

// Ctx is what one run sees.
type Ctx struct {
	T      *tape.Tape
	S      *Stats
	Log    *EvLog
	Tier   string
	Seed   uint64
	Run    uint64
	Replay bool
}

type Plan struct {
	Runs      int // upper bound on runs (all workers together)
	Workers   int // worker processes
	BudgetSec int // workers stop starting runs after this
	ShrinkSec int // minimisation budget per violation class
	// PerWorkerParallel > 1 lets one worker process execute that many runs concurrently
	// (only for checks whose runs share nothing mutable).
	PerWorkerParallel int
	// FixedRuns: every run index in [0,Runs) is executed regardless of budget (enumerations).
	FixedRuns bool
	// MemLimitMB is advisory, reported in evidence.
}

// Check is one property's machinery.
type Check interface {
	ID() string
	Level() string // exploration | fault_enumeration
	Rule() string
	Assumptions() []string
	Real() []string
	Simulated() []string
	Plan(tier string) Plan
	// Init does per-process heavy setup (compile circuits, Groth16 setup, load files).
	Init(tier string, worker, nworkers int, seed uint64) error
	// Run executes one simulated run; it must take every choice from c.T.
	Run(c *Ctx) *Violation
	// Finish lets a worker add end-of-batch facts (reach probes) to stats; may return a
	// machinery error (exit 2), never a violation.
	Finish(s *Stats, tier string) error
}

// FoundViolation is a violation with what is needed to replay it.
type FoundViolation struct {
	Run     uint64    `json:"run"`
	V       Violation `json:"violation"`
	Tape    []uint32  `json:"tape"`
	LogHash string    `json:"log_hash"`
}

type WorkerOut struct {
	Runs       int               `json:"runs"`
	Stats      *Stats            `json:"stats"`
	Violations []FoundViolation  `json:"violations"`
	RunHashes  map[string]string `json:"run_hashes,omitempty"`
	WallS      float64           `json:"wall_s"`
	Err        string            `json:"err,omitempty"`
}

// ReplayFile is the artefact printed in a VIOLATION line.
type ReplayFile struct {
	Property  string    `json:"property"`
	Tier      string    `json:"tier"`
	Seed      uint64    `json:"seed"`
	Run       uint64    `json:"run"`
	Tape      []uint32  `json:"tape"`
	Violation Violation `json:"violation"`
	LogHash   string    `json:"log_hash"`
	Trace     []string  `json:"trace,omitempty"`
	Toolchain string    `json:"toolchain"`
	Worker    int       `json:"worker"`
	NWorkers  int       `json:"nworkers"`
	Minimised bool      `json:"minimised"`
	// Crash: the run killed the worker process (panic in a repository goroutine); Generate: the
	// tape is regenerated from (seed, run) instead of being replayed.
	Crash    bool `json:"crash,omitempty"`
	Generate bool `json:"generate,omitempty"`
	OrigTape int  `json:"original_tape_len"`
	// History: the violation did not reproduce from its own tape in a fresh process, because the code under
	// test keeps state across calls (a process-wide cache, a pool); the replay first re-executes these earlier
	// runs of the same worker, each regenerated from (seed, run), and then the recorded tape.
	History []uint64 `json:"history_runs,omitempty"`
}

// Known findings ------------------------------------------------------------------------

type Finding struct {
	Open     bool
	Property string
	Sig      string
	Text     string
}

func LoadFindings(path string) ([]Finding, error) {
	b, err := os.ReadFile(path)
	if err != nil {
		if os.IsNotExist(err) {
			return nil, nil
		}
		return nil, err
	}
	var out []Finding
	for _, ln := range strings.Split(string(b), "\n") {
		ln = strings.TrimSpace(ln)
		if ln == "" || strings.HasPrefix(ln, "#") {
			continue
		}
		var f Finding
		switch {
		case strings.HasPrefix(ln, "open:"):
			f.Open = true
			ln = strings.TrimSpace(strings.TrimPrefix(ln, "open:"))
		case strings.HasPrefix(ln, "fixed:"):
			ln = strings.TrimSpace(strings.TrimPrefix(ln, "fixed:"))
		default:
			return nil, fmt.Errorf("KNOWN_FINDINGS: unparsable line %q", ln)
		}
		for _, tok := range strings.Fields(ln) {
			if strings.HasPrefix(tok, "property=") {
				f.Property = strings.TrimPrefix(tok, "property=")
			}
			if strings.HasPrefix(tok, "sig=") {
				f.Sig = strings.TrimPrefix(tok, "sig=")
			}
		}
		f.Text = ln
		out = append(out, f)
	}
	return out, nil
}

// MatchOpen returns the open finding that lists this violation, if any.
func MatchOpen(fs []Finding, prop string, v Violation) *Finding {
	for i := range fs {
		f := &fs[i]
		if f.Open && f.Property == prop && f.Sig != "" && strings.HasPrefix(v.Class, f.Sig) {
			return f
		}
	}
	return nil
}

// Evidence ------------------------------------------------------------------------------

type Evidence struct {
	PropertyID  string         `json:"property_id"`
	Tier        string         `json:"tier"`
	Seed        int64          `json:"seed"`
	Level       string         `json:"level"`
	Coverage    map[string]any `json:"coverage"`
	Assumptions []string       `json:"assumptions"`
	WallS       float64        `json:"wall_s"`
	Violations  int            `json:"violations"`
}

func splitCounters(c map[string]int64) (faults, probes, other map[string]int64) {
	faults, probes, other = map[string]int64{}, map[string]int64{}, map[string]int64{}
	for k, v := range c {
		switch {
		case strings.HasPrefix(k, "fault:"):
			faults[strings.TrimPrefix(k, "fault:")] = v
		case strings.HasPrefix(k, "probe:"):
			probes[strings.TrimPrefix(k, "probe:")] = v
		default:
			other[k] = v
		}
	}
	return
}

func sortedKeys[M ~map[string]V, V any](m M) []string {
	ks := make([]string, 0, len(m))
	for k := range m {
		ks = append(ks, k)
	}
	sort.Strings(ks)
	return ks
}

func writeJSONAtomic(path string, v any) error {
	b, err := json.MarshalIndent(v, "", " ")
	if err != nil {
		return err
	}
	tmp := path + ".tmp"
	if err := os.WriteFile(tmp, append(b, '\n'), 0o644); err != nil {
		return err
	}
	return os.Rename(tmp, path)
}
