// Package gtier is the Groth16 fidelity of World R: real setup / prove / verify of the
// repository with crypto/rand behind a seeded stream, plus an independent proof codec
// (coordinates in EVM order) built on gnark-crypto points and reflection over gnark's
// internal proof struct.
package gtier

import (
	"bytes"
	crand "crypto/rand"
	"encoding/json"
	"fmt"
	"hash/fnv"
	"io"
	"math/big"
	mrand "math/rand/v2"
	"reflect"
	"strings"
	"sync"

	"github.com/consensys/gnark-crypto/ecc"
	"github.com/consensys/gnark-crypto/ecc/bn254"
	"github.com/consensys/gnark-crypto/ecc/bn254/fp"
	"github.com/consensys/gnark/backend/groth16"
	"github.com/consensys/gnark/constraint"
	"github.com/consensys/gnark/frontend"

	"verifsim/oracle"

	"worldcoin/gnark-mbu/prover"
)

// ---------------------------------------------------------------------------------------
// seeded crypto/rand

type stream struct {
	mu  sync.Mutex
	c   *mrand.ChaCha8
	n   int64
	off bool
}

func (s *stream) Read(p []byte) (int, error) {
	s.mu.Lock()
	defer s.mu.Unlock()
	s.n += int64(len(p))
	return s.c.Read(p)
}

var (
	cur      *stream
	origRand io.Reader
)

// SeedRand puts crypto/rand.Reader behind a ChaCha8 stream derived from the two words.
func SeedRand(a, b uint64) {
	var seed [32]byte
	for i := 0; i < 8; i++ {
		seed[i] = byte(a >> (8 * i))
		seed[8+i] = byte(b >> (8 * i))
		seed[16+i] = byte((a ^ 0x9E3779B97F4A7C15) >> (8 * i))
		seed[24+i] = byte((b ^ 0xD1B54A32D192ED03) >> (8 * i))
	}
	if origRand == nil {
		origRand = crand.Reader
	}
	cur = &stream{c: mrand.NewChaCha8(seed)}
	crand.Reader = cur
}

// RandBytesDrawn is the number of random bytes consumed since the last SeedRand.
func RandBytesDrawn() int64 {
	if cur == nil {
		return 0
	}
	cur.mu.Lock()
	defer cur.mu.Unlock()
	return cur.n
}

// ---------------------------------------------------------------------------------------
// systems

type System struct {
	Mode         string
	Depth, Batch int
	PS           *prover.ProvingSystem
}

func (s *System) Key() string { return fmt.Sprintf("%s/d%d/b%d", s.Mode, s.Depth, s.Batch) }

// Setup runs the repository's setup with a random stream fixed per configuration (and salt),
// so every process regenerates the identical keys.
func Setup(mode string, depth, batch int, salt uint64) (*System, error) {
	h := fnv.New64a()
	fmt.Fprintf(h, "%s/%d/%d/%d", mode, depth, batch, salt)
	SeedRand(h.Sum64(), 0x5E7)
	var ps *prover.ProvingSystem
	var err error
	switch mode {
	case "insertion":
		ps, err = prover.SetupInsertion(uint32(depth), uint32(batch))
	case "deletion":
		ps, err = prover.SetupDeletion(uint32(depth), uint32(batch))
	default:
		return nil, fmt.Errorf("mode %q", mode)
	}
	if err != nil {
		return nil, err
	}
	return &System{Mode: mode, Depth: depth, Batch: batch, PS: ps}, nil
}

func bigs(xs []*big.Int) []big.Int {
	out := make([]big.Int, len(xs))
	for i, x := range xs {
		out[i].Set(x)
	}
	return out
}
func bigs2(xs [][]*big.Int) [][]big.Int {
	out := make([][]big.Int, len(xs))
	for i := range xs {
		out[i] = bigs(xs[i])
	}
	return out
}

// DummySystem wraps a compiled constraint system in the repository's ProvingSystem with gnark's
// DummySetup keys (random, unverifiable - but the whole prover path runs: shape validation, witness
// construction, solving, the Groth16 prover). It answers one question cheaply at EVERY dimension,
// including the deepest trees: does Prove* return a proof or an error for these parameters?
func DummySystem(mode string, depth, batch int, ccs constraint.ConstraintSystem) (*System, error) {
	pk, err := groth16.DummySetup(ccs)
	if err != nil {
		return nil, err
	}
	return &System{Mode: mode, Depth: depth, Batch: batch, PS: &prover.ProvingSystem{TreeDepth: uint32(depth), BatchSize: uint32(batch), ProvingKey: pk, ConstraintSystem: ccs}}, nil
}

// ProveErr runs the repository's prover for the witness expressed as typed parameters and returns its error.
func (s *System) ProveErr(insw *oracle.InsertionWitness, delw *oracle.DeletionWitness) (err error) {
	defer func() {
		if r := recover(); r != nil {
			err = fmt.Errorf("panic: %v", r)
		}
	}()
	if s.Mode == "insertion" {
		_, err = s.PS.ProveInsertion(InsertionParams(insw))
	} else {
		_, err = s.PS.ProveDeletion(DeletionParams(delw))
	}
	return err
}

// InsertionParams converts a witness into the repository's typed parameters (start index
// must fit uint32).
func InsertionParams(w *oracle.InsertionWitness) *prover.InsertionParameters {
	p := &prover.InsertionParameters{StartIndex: uint32(w.Start.Uint64())}
	p.InputHash.Set(w.InputHash)
	p.PreRoot.Set(w.Pre)
	p.PostRoot.Set(w.Post)
	p.IdComms = bigs(w.Comms)
	p.MerkleProofs = bigs2(w.Paths)
	return p
}

func DeletionParams(w *oracle.DeletionWitness) *prover.DeletionParameters {
	p := &prover.DeletionParameters{}
	p.InputHash.Set(w.InputHash)
	p.PreRoot.Set(w.Pre)
	p.PostRoot.Set(w.Post)
	for _, ix := range w.Indices {
		p.DeletionIndices = append(p.DeletionIndices, uint32(ix.Uint64()))
	}
	p.IdComms = bigs(w.Items)
	p.MerkleProofs = bigs2(w.Paths)
	return p
}

// ---------------------------------------------------------------------------------------
// independent proof codec

// Coordinates returns A.x A.y B.x1 B.x0 B.y1 B.y0 C.x C.y of a gnark BN254 Groth16 proof,
// read from the proof struct itself (not from any serialisation).
func Coordinates(p groth16.Proof) ([8]*big.Int, error) {
	var out [8]*big.Int
	v := reflect.ValueOf(p)
	if v.Kind() != reflect.Pointer || v.IsNil() {
		return out, fmt.Errorf("proof is %T", p)
	}
	e := v.Elem()
	ar, ok1 := e.FieldByName("Ar").Interface().(bn254.G1Affine)
	krs, ok2 := e.FieldByName("Krs").Interface().(bn254.G1Affine)
	bs, ok3 := e.FieldByName("Bs").Interface().(bn254.G2Affine)
	if !ok1 || !ok2 || !ok3 {
		return out, fmt.Errorf("unexpected proof layout %T", p)
	}
	bi := func(x *fp.Element) *big.Int { return x.BigInt(new(big.Int)) }
	out[0], out[1] = bi(&ar.X), bi(&ar.Y)
	out[2], out[3] = bi(&bs.X.A1), bi(&bs.X.A0)
	out[4], out[5] = bi(&bs.Y.A1), bi(&bs.Y.A0)
	out[6], out[7] = bi(&krs.X), bi(&krs.Y)
	return out, nil
}

// FromCoordinates builds a gnark proof object holding exactly these coordinates (no curve or
// subgroup check: the verifier is what must reject garbage). Coordinates must be < q.
func FromCoordinates(c [8]*big.Int) (groth16.Proof, error) {
	for i, x := range c {
		if x == nil || x.Sign() < 0 || x.Cmp(oracle.Q) >= 0 {
			return nil, fmt.Errorf("coordinate %d out of the base field", i)
		}
	}
	p := groth16.NewProof(ecc.BN254)
	e := reflect.ValueOf(p).Elem()
	var ar, krs bn254.G1Affine
	var bs bn254.G2Affine
	ar.X.SetBigInt(c[0])
	ar.Y.SetBigInt(c[1])
	bs.X.A1.SetBigInt(c[2])
	bs.X.A0.SetBigInt(c[3])
	bs.Y.A1.SetBigInt(c[4])
	bs.Y.A0.SetBigInt(c[5])
	krs.X.SetBigInt(c[6])
	krs.Y.SetBigInt(c[7])
	e.FieldByName("Ar").Set(reflect.ValueOf(ar))
	e.FieldByName("Krs").Set(reflect.ValueOf(krs))
	e.FieldByName("Bs").Set(reflect.ValueOf(bs))
	return p, nil
}

type proofJSON struct {
	Ar  []string   `json:"ar"`
	Bs  [][]string `json:"bs"`
	Krs []string   `json:"krs"`
}

func parseHex(s string) (*big.Int, error) {
	if !strings.HasPrefix(s, "0x") || len(s) < 3 {
		return nil, fmt.Errorf("coordinate %q is not a 0x-hexadecimal integer", s)
	}
	v, ok := new(big.Int).SetString(s[2:], 16)
	if !ok || v.Sign() < 0 {
		return nil, fmt.Errorf("coordinate %q is not a 0x-hexadecimal integer", s)
	}
	return v, nil
}

// DecodeJSON is our decoder of the documented proof JSON: eight hexadecimal integers in the
// EVM order, grouped ar[2], bs[2][2], krs[2].
func DecodeJSON(b []byte) ([8]*big.Int, error) {
	var out [8]*big.Int
	var pj proofJSON
	dec := json.NewDecoder(bytes.NewReader(b))
	dec.DisallowUnknownFields()
	if err := dec.Decode(&pj); err != nil {
		return out, err
	}
	if rest, _ := io.ReadAll(dec.Buffered()); len(bytes.TrimSpace(rest)) != 0 || dec.More() {
		return out, fmt.Errorf("trailing data after the proof JSON document")
	}
	if len(pj.Ar) != 2 || len(pj.Krs) != 2 || len(pj.Bs) != 2 || len(pj.Bs[0]) != 2 || len(pj.Bs[1]) != 2 {
		return out, fmt.Errorf("proof JSON does not have the shape ar[2] bs[2][2] krs[2]")
	}
	flat := []string{pj.Ar[0], pj.Ar[1], pj.Bs[0][0], pj.Bs[0][1], pj.Bs[1][0], pj.Bs[1][1], pj.Krs[0], pj.Krs[1]}
	for i, s := range flat {
		v, err := parseHex(s)
		if err != nil {
			return out, err
		}
		out[i] = v
	}
	return out, nil
}

// ShortCoordinates counts coordinates whose big-endian form is shorter than 32 bytes.
func ShortCoordinates(c [8]*big.Int) int {
	n := 0
	for _, x := range c {
		if (x.BitLen()+7)/8 < 32 {
			n++
		}
	}
	return n
}

// VerifyWithVK verifies a proof against a verifying key for the single public input hash,
// through gnark directly (not through the repository's Verify* wrappers).
func VerifyWithVK(s *System, p groth16.Proof, hash *big.Int) error {
	var assignment frontend.Circuit
	if s.Mode == "insertion" {
		assignment = &prover.InsertionMbuCircuit{InputHash: new(big.Int).Set(hash), IdComms: make([]frontend.Variable, s.Batch)}
	} else {
		assignment = &prover.DeletionMbuCircuit{InputHash: new(big.Int).Set(hash), DeletionIndices: make([]frontend.Variable, s.Batch)}
	}
	w, err := frontend.NewWitness(assignment, ecc.BN254.ScalarField(), frontend.PublicOnly())
	if err != nil {
		return err
	}
	return groth16.Verify(p, s.PS.VerifyingKey, w)
}

// ---------------------------------------------------------------------------------------
// forged proofs from small multiples of the generators

type ShortPoints struct {
	G1 []bn254.G1Affine // multiples of the generator with a coordinate < 2^248
	G2 []bn254.G2Affine
}

func short(x *fp.Element) bool { return x.BigInt(new(big.Int)).BitLen() <= 248 }

// FindShortPoints scans k*G for k = 1..n1 (G1) and 1..n2 (G2).
func FindShortPoints(n1, n2 int) *ShortPoints {
	_, _, g1, g2 := bn254.Generators()
	sp := &ShortPoints{}
	var acc bn254.G1Jac
	var g1j bn254.G1Jac
	g1j.FromAffine(&g1)
	acc.Set(&g1j)
	for k := 1; k <= n1; k++ {
		var a bn254.G1Affine
		a.FromJacobian(&acc)
		if short(&a.X) || short(&a.Y) {
			sp.G1 = append(sp.G1, a)
		}
		acc.AddAssign(&g1j)
	}
	var acc2, g2j bn254.G2Jac
	g2j.FromAffine(&g2)
	acc2.Set(&g2j)
	for k := 1; k <= n2; k++ {
		var a bn254.G2Affine
		a.FromJacobian(&acc2)
		if short(&a.X.A0) || short(&a.X.A1) || short(&a.Y.A0) || short(&a.Y.A1) {
			sp.G2 = append(sp.G2, a)
		}
		acc2.AddAssign(&g2j)
	}
	return sp
}

// BoundaryG1 returns genuine curve points (BN254 G1 has cofactor 1, so every curve point is in the group)
// whose x coordinate sits at the edges of the base field's range: the largest values below q, the values
// around the scalar-field order r (q > r: a coordinate in [r, q) is legal for a proof and is not a legal
// scalar), around 2^253 and 2^252 (top-bit patterns that binary point encodings use as flags), and the
// smallest values. For each anchor the nearest x with x^3+3 a square is taken, with both signs of y.
func BoundaryG1() []bn254.G1Affine {
	q := fp.Modulus()
	r := ecc.BN254.ScalarField()
	var out []bn254.G1Affine
	at := func(start *big.Int, dir int64, want int) {
		x := new(big.Int).Set(start)
		for found, tries := 0, 0; found < want && tries < 400; tries++ {
			if x.Sign() >= 0 && x.Cmp(q) < 0 {
				var fx, rhs, y fp.Element
				fx.SetBigInt(x)
				rhs.Square(&fx).Mul(&rhs, &fx)
				var three fp.Element
				three.SetUint64(3)
				rhs.Add(&rhs, &three)
				if y.Sqrt(&rhs) != nil {
					var ny fp.Element
					ny.Neg(&y)
					for _, yy := range []fp.Element{y, ny} {
						pt := bn254.G1Affine{X: fx, Y: yy}
						if pt.IsOnCurve() && !pt.IsInfinity() {
							out = append(out, pt)
						}
					}
					found++
				}
			}
			x.Add(x, big.NewInt(dir))
		}
	}
	at(new(big.Int).Sub(q, big.NewInt(1)), -1, 3)   // top of the base field
	at(new(big.Int).Set(r), +1, 3)                  // r, r+1, ... (not a scalar, still a coordinate)
	at(new(big.Int).Sub(r, big.NewInt(1)), -1, 2)   // just below r
	at(new(big.Int).Lsh(big.NewInt(1), 253), +1, 2) // 0b001...: bit 253 set
	at(new(big.Int).Sub(new(big.Int).Lsh(big.NewInt(1), 253), big.NewInt(1)), -1, 2)
	at(new(big.Int).Lsh(big.NewInt(1), 252), +1, 1)
	mid := new(big.Int).Add(r, new(big.Int).Rsh(new(big.Int).Sub(q, r), 1))
	at(mid, +1, 2) // middle of [r, q)
	return out
}

func CoordsOfPoints(a bn254.G1Affine, b bn254.G2Affine, c bn254.G1Affine) [8]*big.Int {
	bi := func(x *fp.Element) *big.Int { return x.BigInt(new(big.Int)) }
	return [8]*big.Int{bi(&a.X), bi(&a.Y), bi(&b.X.A1), bi(&b.X.A0), bi(&b.Y.A1), bi(&b.Y.A0), bi(&c.X), bi(&c.Y)}
}
