package checks

import (
	"fmt"
	"math/big"

	"github.com/consensys/gnark-crypto/ecc/bn254"
	"github.com/consensys/gnark/backend/groth16"

	"verifsim/engine"
	"verifsim/gtier"
	"verifsim/oracle"
	"verifsim/rollup"
	"verifsim/tape"

	"worldcoin/gnark-mbu/prover"
)

// C07: real Groth16 prover and verifier of both modes; the channel between prover and
// contract is the faulty party (wrong, stale, foreign, perturbed hashes; wrong system;
// altered proofs), and the sequencer may hand the prover invalid or mis-shaped parameters.
type C07 struct {
	base
	g gsys
}

func init() { register(&C07{base: base{id: "C07", level: "exploration"}}) }

func (c *C07) Rule() string {
	return "one run = a short rollup history on two real proving systems (one insertion, one deletion, depth != batch, keys from the seeded stream): 1..2 valid batches are proved by the real prover (randomness from the tape) and each proof is delivered 12..20 times through a faulty channel (own hash, hash+k*r, neighbours, random, hash of a perturbed batch, hash of the earlier batch of the history and the earlier proof against the new hash, the other mode's verifier, altered A/B/C points); in between, invalid or mis-shaped parameter sets are handed to the prover; evaluations = verifier calls + prover calls; distinct = (system, delivery kind, verdict) and (system, invalid-parameter kind, oracle reason); a third of the runs are World L runs: 2..4 caller tasks hand 2..4 parameter sets each (valid batches and invalid twins under the same stated hash) to Prove* of one shared system, interleaved by the tape at every statement of the instrumented prover package"
}
func (c *C07) Assumptions() []string {
	return []string{"a valid Groth16 proof verifying for a second, unrelated public input would be a break of Groth16 itself; the check treats acceptance of any non-congruent hash as a violation"}
}
func (c *C07) Real() []string {
	return []string{"prover.SetupInsertion/SetupDeletion", "prover.ProveInsertion/ProveDeletion incl. ValidateShape", "prover.VerifyInsertion/VerifyDeletion", "gnark v0.8.0 Groth16 backend"}
}
func (c *C07) Simulated() []string {
	return []string{"crypto/rand (seeded)", "contract model producing valid batches and their hashes", "faulty prover-to-verifier channel and dishonest sequencer (fault injector)"}
}
func (c *C07) Plan(tier string) engine.Plan {
	if tier == "thorough" {
		return engine.Plan{Runs: 100000, Workers: 8, BudgetSec: 1500, ShrinkSec: 240}
	}
	return engine.Plan{Runs: 100000, Workers: 8, BudgetSec: 70, ShrinkSec: 60}
}

func (c *C07) Init(tier string, worker, nworkers int, seed uint64) error {
	di := dims{rollup.Insertion, 3 + worker%4, 1 + worker%2}
	dd := dims{rollup.Deletion, 2 + (worker+1)%4, 1 + (worker/2)%3}
	if di.depth == di.batch {
		di.depth++
	}
	if dd.depth == dd.batch {
		dd.depth++
	}
	// the ends of the supported range belong to "every valid parameter set" too: the deepest tree each
	// mode can be built for (index arithmetic at 2^31 / 2^32 is where 32-bit shifts wrap)
	if nworkers >= 4 {
		switch worker {
		case nworkers - 1:
			di = dims{rollup.Insertion, 32, 1}
		case nworkers - 2:
			dd = dims{rollup.Deletion, 31, 2}
		}
	}
	return c.g.init(worker, []dims{di, dd})
}

func verifyVia(s *gtier.System, hash *big.Int, p groth16.Proof) (err error) {
	defer func() {
		if r := recover(); r != nil {
			err = fmt.Errorf("PANIC: %v", r)
		}
	}()
	if s.Mode == rollup.Insertion {
		return s.PS.VerifyInsertion(*hash, &prover.Proof{Proof: p})
	}
	return s.PS.VerifyDeletion(*hash, &prover.Proof{Proof: p})
}

func alteredProof(t *tape.Tape, p groth16.Proof) (groth16.Proof, string) {
	cs, err := gtier.Coordinates(p)
	if err != nil {
		panic(err)
	}
	_, _, g1, g2 := bn254.Generators()
	var a, cc bn254.G1Affine
	var b bn254.G2Affine
	a.X.SetBigInt(cs[0])
	a.Y.SetBigInt(cs[1])
	b.X.A1.SetBigInt(cs[2])
	b.X.A0.SetBigInt(cs[3])
	b.Y.A1.SetBigInt(cs[4])
	b.Y.A0.SetBigInt(cs[5])
	cc.X.SetBigInt(cs[6])
	cc.Y.SetBigInt(cs[7])
	kind := ""
	switch t.Draw(5) {
	case 0:
		a.Add(&a, &g1)
		kind = "A+G"
	case 1:
		a.Neg(&a)
		kind = "-A"
	case 2:
		cc.Add(&cc, &g1)
		kind = "C+G"
	case 3:
		b.Add(&b, &g2)
		kind = "B+G2"
	default:
		a, cc = cc, a
		kind = "A<->C"
	}
	q, err := gtier.FromCoordinates(gtier.CoordsOfPoints(a, b, cc))
	if err != nil {
		panic(err)
	}
	return q, kind
}

type provedBatch struct {
	sys   *gtier.System
	proof groth16.Proof
	hash  *big.Int
}

func (c *C07) Run(x *engine.Ctx) *engine.Violation {
	t := x.T
	if x.Run%3 == 1 {
		return c.concurrentCallers(x) // World L: interleaved callers of one proving system
	}
	var hist []provedBatch
	var lg []string
	steps := t.Range(2, 4)
	for st := 0; st < steps; st++ {
		s := c.g.systems[t.Pick(2)]
		other := c.g.systems[0]
		if s == other {
			other = c.g.systems[1]
		}
		if t.Chance(2, 5) {
			if v := c.invalidParams(x, t, s, &lg); v != nil {
				return v
			}
			continue
		}
		// a valid batch, proved by the real prover
		gtier.SeedRand(uint64(t.U32())<<32|uint64(t.U32()), uint64(t.U32()))
		var proof groth16.Proof
		var hash, perturbed *big.Int
		if s.Mode == rollup.Insertion {
			w, world := validInsertion(t, s)
			p, err := safeProveIns(s, gtier.InsertionParams(w))
			x.S.Eval(1)
			if err != nil || p == nil {
				return engine.Violatef("C07/valid-batch-not-proved", "%s %s: %v", s.Key(), rollup.DescribeIns(w), err)
			}
			proof, hash = p.Proof, w.InputHash
			if t.Chance(1, 2) {
				if v := c.resubmitWithChangedPublicValue(x, t, s, w, nil, &lg); v != nil {
					return v
				}
			}
			c2 := append([]*big.Int{}, w.Comms...)
			c2[0] = new(big.Int).Add(oracle.Mod(c2[0]), big.NewInt(1))
			perturbed = rollup.HonestInsertion(world.Model, w.Start.Uint64(), c2).InputHash
		} else {
			w, _ := validDeletion(t, s)
			p, err := safeProveDel(s, gtier.DeletionParams(w))
			x.S.Eval(1)
			if err != nil || p == nil {
				return engine.Violatef("C07/valid-batch-not-proved", "%s %s: %v", s.Key(), rollup.DescribeDel(w), err)
			}
			proof, hash = p.Proof, w.InputHash
			if t.Chance(1, 2) {
				if v := c.resubmitWithChangedPublicValue(x, t, s, nil, w, &lg); v != nil {
					return v
				}
			}
			w2 := *w
			w2.Post = new(big.Int).Add(oracle.Mod(w.Post), big.NewInt(1))
			w2.Post.Mod(w2.Post, oracle.R)
			rollup.RehashDeletion(&w2)
			perturbed = w2.InputHash
		}
		x.Log.Addf("prover", "proved", "%s hash=%s", s.Key(), hash.Text(16))
		lg = append(lg, fmt.Sprintf("prove %s -> proof for 0x%s", s.Key(), hash.Text(16)))
		deliveries := t.Range(12, 20)
		for d := 0; d < deliveries; d++ {
			target, h, pr := s, hash, proof
			kind, accept := "own-hash", true
			switch t.Weighted(3, 2, 2, 2, 2, 2, 2, 2, 1, 2, 2) {
			case 0:
			case 1:
				h = new(big.Int).Add(hash, new(big.Int).Mul(oracle.R, big.NewInt(int64(1+t.Draw(4)))))
				kind = "hash-plus-k-r"
			case 2:
				if t.Chance(1, 2) {
					h = new(big.Int).Add(hash, big.NewInt(1))
				} else {
					h = new(big.Int).Sub(hash, big.NewInt(1))
					h.Mod(h, oracle.R)
				}
				kind, accept = "hash-neighbour", false
			case 3:
				h = t.BigBelow(oracle.R)
				kind, accept = "random-hash", false
			case 4:
				h = perturbed
				kind, accept = "hash-of-perturbed-batch", false
			case 5:
				if len(hist) == 0 {
					continue
				}
				o := hist[t.Pick(len(hist))]
				if o.hash.Cmp(hash) == 0 {
					continue
				}
				if t.Chance(1, 2) {
					h = o.hash // this proof presented for an earlier batch's hash
					kind = "hash-of-earlier-batch"
				} else {
					pr, target = o.proof, o.sys // stale proof replayed against the new batch's hash
					kind = "stale-proof-for-new-hash"
					if o.sys != s {
						kind = "stale-proof-other-system-for-new-hash"
					}
				}
				accept = false
			case 6:
				target = other
				kind, accept = "other-mode-system", false
			case 7:
				var ak string
				pr, ak = alteredProof(t, proof)
				kind, accept = "altered-proof/"+ak, false
			case 8:
				h = big.NewInt(0)
				kind, accept = "zero-hash", false
			case 9:
				// negative integers: -h is another field element (reject); h - k*r is the same one (accept)
				if t.Chance(1, 2) {
					h = new(big.Int).Neg(hash)
					if oracle.Mod(h).Cmp(oracle.Mod(hash)) == 0 {
						continue
					}
					kind, accept = "negated-hash", false
				} else {
					h = new(big.Int).Sub(hash, new(big.Int).Mul(oracle.R, big.NewInt(int64(1+t.Draw(8)))))
					kind = "hash-minus-k-r"
				}
			default:
				// same low 256 (or 253) bits, different integer: must not collide with the own hash
				sh := []uint{256, 253, 254, 255, 264}[t.Pick(5)]
				h = new(big.Int).Add(hash, new(big.Int).Lsh(big.NewInt(int64(1+t.Draw(3))), sh))
				if oracle.Mod(h).Cmp(oracle.Mod(hash)) == 0 {
					continue
				}
				kind, accept = "hash-plus-high-bits", false
			}
			err := verifyVia(target, h, pr)
			x.S.Eval(1)
			x.S.Count("fault:delivery/" + kind)
			x.S.Seen(fmt.Sprintf("%s/%s/%v", s.Key(), kind, err == nil))
			x.Log.Addf("channel", "deliver", "%s -> %s kind=%s accepted=%v", s.Key(), target.Key(), kind, err == nil)
			if len(lg) < 30 {
				lg = append(lg, fmt.Sprintf("deliver kind=%s to %s: accepted=%v", kind, target.Key(), err == nil))
			}
			if accept && err != nil {
				return engine.Violatef("C07/own-proof-rejected/"+kind, "%s: proof for 0x%s delivered as %s was rejected: %v", s.Key(), hash.Text(16), kind, err)
			}
			if !accept && err == nil {
				return engine.Violatef("C07/foreign-delivery-accepted/"+kindClass(kind), "%s -> %s: delivery kind %s accepted (public input 0x%s, proof made for 0x%s)", s.Key(), target.Key(), kind, h.Text(16), hash.Text(16))
			}
		}
		hist = append(hist, provedBatch{s, proof, hash})
	}
	if x.S.WantSample() {
		x.S.Sample(map[string]any{"systems": []string{c.g.systems[0].Key(), c.g.systems[1].Key()}, "history": lg})
	}
	return nil
}

func kindClass(k string) string {
	for i := 0; i < len(k); i++ {
		if k[i] == '/' {
			return k[:i]
		}
	}
	return k
}

func safeProveIns(s *gtier.System, p *prover.InsertionParameters) (pr *prover.Proof, err error) {
	defer func() {
		if r := recover(); r != nil {
			pr, err = nil, fmt.Errorf("PANIC: %v", r)
		}
	}()
	return s.PS.ProveInsertion(p)
}

func safeProveDel(s *gtier.System, p *prover.DeletionParameters) (pr *prover.Proof, err error) {
	defer func() {
		if r := recover(); r != nil {
			pr, err = nil, fmt.Errorf("PANIC: %v", r)
		}
	}()
	return s.PS.ProveDeletion(p)
}

func isPanic(err error) bool {
	return err != nil && len(err.Error()) >= 6 && err.Error()[:6] == "PANIC:"
}

// invalidParams hands the prover something that is not a valid batch for this system.
// resubmitWithChangedPublicValue: history. The batch just proved on this system is handed to the prover
// again with the SAME input hash and the same private inputs (merkle proofs) but one of the values the hash
// stands for changed (pre-root, post-root, start index / a deletion index, a commitment). That set does not
// describe a valid batch - its stated hash is not the hash of its public values - so the prover owes an
// error and no proof, whatever it remembers about the earlier call.
func (c *C07) resubmitWithChangedPublicValue(x *engine.Ctx, t *tape.Tape, s *gtier.System, iw *oracle.InsertionWitness, dw *oracle.DeletionWitness, lg *[]string) *engine.Violation {
	var proof *prover.Proof
	var err error
	field := ""
	bump := func(v *big.Int) { v.Add(v, big.NewInt(int64(1+t.Draw(3)))) }
	if iw != nil {
		p := gtier.InsertionParams(iw)
		switch t.Draw(4) {
		case 0:
			bump(&p.PreRoot)
			field = "pre-root"
		case 1:
			bump(&p.PostRoot)
			field = "post-root"
		case 2:
			p.StartIndex ^= 1 << uint(t.Draw(3))
			field = "start-index"
		default:
			bump(&p.IdComms[t.Pick(len(p.IdComms))])
			field = "commitment"
		}
		proof, err = safeProveIns(s, p)
	} else {
		p := gtier.DeletionParams(dw)
		switch t.Draw(3) {
		case 0:
			bump(&p.PreRoot)
			field = "pre-root"
		case 1:
			bump(&p.PostRoot)
			field = "post-root"
		default:
			p.DeletionIndices[t.Pick(len(p.DeletionIndices))] ^= 1 << uint(t.Draw(3))
			field = "deletion-index"
		}
		proof, err = safeProveDel(s, p)
	}
	x.S.Eval(1)
	x.S.Count("fault:params/history/resubmitted-with-changed-" + field)
	x.S.Seen(fmt.Sprintf("%s/resubmission/%s", s.Key(), field))
	x.Log.Addf("sequencer", "resubmission", "%s field=%s err=%v proof=%v", s.Key(), field, err != nil, proof != nil)
	if len(*lg) < 30 {
		*lg = append(*lg, fmt.Sprintf("resubmit the proved batch with %s changed, input hash kept -> err=%v", field, err != nil))
	}
	if isPanic(err) {
		return engine.Violatef("C07/prover-panics-on-invalid-parameters/history", "%s resubmission with %s changed: %v", s.Key(), field, err)
	}
	if err == nil || proof != nil {
		return engine.Violatef("C07/invalid-parameters-proved/history", "%s: the batch proved a moment ago was resubmitted with its %s changed and its input hash and merkle proofs kept; the stated hash is no longer the hash of the public values, yet the prover returned error=%v proof-present=%v", s.Key(), field, err, proof != nil)
	}
	return nil
}

func (c *C07) invalidParams(x *engine.Ctx, t *tape.Tape, s *gtier.System, lg *[]string) *engine.Violation {
	kind := ""
	var proof *prover.Proof
	var err error
	reason := ""
	if s.Mode == rollup.Insertion {
		w, world := validInsertion(t, s)
		world.Snapshot()
		p := gtier.InsertionParams(w)
		switch t.Draw(9) {
		case 7:
			// everything describes a valid batch except the stated input hash
			switch t.Draw(3) {
			case 0:
				p.InputHash.Add(&p.InputHash, big.NewInt(1))
			case 1:
				p.InputHash.Set(t.BigBelow(oracle.R))
			default:
				p.InputHash.SetInt64(0)
			}
			kind, reason = "invalid-batch/input-hash-wrong", "input-hash-mismatch"
		case 8:
			p.IdComms = append(p.IdComms, *big.NewInt(9))
			kind = "shape/commitments-too-long-only"
		case 0:
			p.IdComms = p.IdComms[:len(p.IdComms)-1]
			kind = "shape/commitments-short"
		case 1:
			p.IdComms = append(p.IdComms, *big.NewInt(5))
			p.MerkleProofs = append(p.MerkleProofs, p.MerkleProofs[0])
			kind = "shape/batch-too-long"
		case 2:
			i := t.Pick(len(p.MerkleProofs))
			p.MerkleProofs[i] = p.MerkleProofs[i][:len(p.MerkleProofs[i])-1]
			kind = "shape/ragged-merkle-proof"
		case 3:
			i := t.Pick(len(p.MerkleProofs))
			p.MerkleProofs[i] = append(p.MerkleProofs[i], *big.NewInt(0))
			kind = "shape/merkle-proof-too-long"
		case 4:
			p.MerkleProofs = nil
			kind = "shape/no-merkle-proofs"
		default:
			// oracle-invalid batch from the adversary catalogue (typed parameters can express it)
			for tries := 0; tries < 6 && kind == ""; tries++ {
				f := rollup.InsertionFaults[1+t.Pick(len(rollup.InsertionFaults)-1)]
				b := f.Apply(t, world, w)
				if b == nil || oracle.Mod(b.Start).BitLen() > 32 {
					continue
				}
				if ok, why := oracle.InsertionValid(s.Depth, b); !ok {
					p = gtier.InsertionParams(b)
					kind, reason = "invalid-batch/"+f.Name, why
				}
			}
			if kind == "" {
				return nil
			}
		}
		proof, err = safeProveIns(s, p)
	} else {
		w, world := validDeletion(t, s)
		world.Snapshot()
		p := gtier.DeletionParams(w)
		switch t.Draw(9) {
		case 7:
			switch t.Draw(3) {
			case 0:
				p.InputHash.Add(&p.InputHash, big.NewInt(1))
			case 1:
				p.InputHash.Set(t.BigBelow(oracle.R))
			default:
				p.InputHash.SetInt64(0)
			}
			kind, reason = "invalid-batch/input-hash-wrong", "input-hash-mismatch"
		case 8:
			p.DeletionIndices = append(p.DeletionIndices, 1)
			kind = "shape/indices-too-long-only"
		case 0:
			p.DeletionIndices = p.DeletionIndices[:len(p.DeletionIndices)-1]
			kind = "shape/indices-short"
		case 1:
			p.IdComms = p.IdComms[:len(p.IdComms)-1]
			kind = "shape/items-short"
		case 2:
			i := t.Pick(len(p.MerkleProofs))
			p.MerkleProofs[i] = p.MerkleProofs[i][:len(p.MerkleProofs[i])-1]
			kind = "shape/ragged-merkle-proof"
		case 3:
			p.DeletionIndices = append(p.DeletionIndices, 0)
			p.IdComms = append(p.IdComms, *big.NewInt(0))
			p.MerkleProofs = append(p.MerkleProofs, p.MerkleProofs[0])
			kind = "shape/batch-too-long"
		case 4:
			p.MerkleProofs = p.MerkleProofs[:len(p.MerkleProofs)-1]
			kind = "shape/merkle-proofs-short"
		default:
			for tries := 0; tries < 6 && kind == ""; tries++ {
				f := rollup.DeletionFaults[1+t.Pick(len(rollup.DeletionFaults)-1)]
				b := f.Apply(t, world, w)
				if b == nil {
					continue
				}
				fits := true
				for _, ix := range b.Indices {
					if oracle.Mod(ix).BitLen() > 32 {
						fits = false
					}
				}
				if !fits {
					continue
				}
				if ok, why := oracle.DeletionValid(s.Depth, b); !ok {
					p = gtier.DeletionParams(b)
					kind, reason = "invalid-batch/"+f.Name, why
				}
			}
			if kind == "" {
				return nil
			}
		}
		proof, err = safeProveDel(s, p)
	}
	x.S.Eval(1)
	x.S.Count("fault:params/" + kind)
	x.S.Seen(fmt.Sprintf("%s/%s/%s", s.Key(), kind, reason))
	x.Log.Addf("sequencer", "invalid-params", "%s kind=%s reason=%s err=%v proof=%v", s.Key(), kind, reason, err != nil, proof != nil)
	if len(*lg) < 30 {
		*lg = append(*lg, fmt.Sprintf("prove %s with %s (%s): error=%v proof=%v", s.Key(), kind, reason, err != nil, proof != nil))
	}
	if isPanic(err) {
		return engine.Violatef("C07/prover-panics-on-invalid-parameters/"+kindClass(kind), "%s kind=%s: %v", s.Key(), kind, err)
	}
	if err == nil || proof != nil {
		return engine.Violatef("C07/invalid-parameters-proved/"+kindClass(kind), "%s kind=%s reason=%s: prover returned error=%v proof-present=%v", s.Key(), kind, reason, err, proof != nil)
	}
	return nil
}
