package checks

import (
	"encoding/json"
	"fmt"
	"math/big"
	"strings"

	"github.com/consensys/gnark/backend/groth16"

	"verifsim/engine"
	"verifsim/gtier"
	"verifsim/oracle"
	"verifsim/rollup"
	"verifsim/service"
	"verifsim/tape"

	"worldcoin/gnark-mbu/poseidon_tree"
	"worldcoin/gnark-mbu/prover"
)

// World L modes of the library properties (service/callers.go): the same per-call oracles as the
// sequential modes, but 2..5 caller tasks run their calls interleaved at statement granularity of the
// library, on unrelated arguments. Everything a caller needs (arguments, expected results) is drawn and
// computed on the scheduler goroutine before the bubble starts; callers never touch the tape.

func callersVerdict(x *engine.Ctx, prop, what string, res []service.CallerResult, sim *service.Sim, err error) *engine.Violation {
	noteSwitches(x, sim)
	x.S.Count("probe:concurrent_caller_runs")
	if len(sim.Panics) > 0 {
		panic("scheduler body panicked: " + sim.Panics[0])
	}
	for i, r := range res {
		if r.Panic != "" {
			return engine.Violatef(prop+"/concurrent-callers/panic-in-repository-code", "caller %d of %d (%s), strategy %s: %s", i, len(res), what, sim.StrategyName(), r.Panic)
		}
	}
	for i, r := range res {
		if r.Problem != "" {
			cls := r.Problem
			if k := strings.Index(cls, ":"); k > 0 {
				cls = cls[:k]
			}
			return engine.Violatef(prop+"/concurrent-callers/"+cls, "caller %d of %d (%s), strategy %s, %d scheduler steps: %s (the same call on the same arguments is right when no other caller is active)", i, len(res), what, sim.StrategyName(), sim.Step, r.Problem)
		}
	}
	if err != nil {
		return engine.Violatef(prop+"/concurrent-callers/deadlock", "%s: callers left blocked at the end of the run: %v", what, err)
	}
	if x.S.WantSample() {
		x.S.Sample(map[string]any{"world": "L (concurrent library callers)", "callers": len(res), "strategy": sim.StrategyName(), "steps": sim.Step, "max_tasks_enabled_at_once": sim.MaxParallel, "calls": what})
	}
	return nil
}

// --- C08 -------------------------------------------------------------------------------------------

func c08Val(t *tape.Tape) *big.Int {
	switch t.Weighted(6, 2, 1, 1, 1) {
	case 0:
		return t.BigBelow(oracle.R)
	case 1:
		return t.BigBelow(new(big.Int).Lsh(big.NewInt(1), uint(8*(1+t.Draw(31)))))
	case 2:
		return big.NewInt(0)
	case 3:
		return new(big.Int).Sub(oracle.R, big.NewInt(1))
	default:
		return big.NewInt(int64(1 + t.Draw(255)))
	}
}

func (c *C08) concurrentCallers(x *engine.Ctx) *engine.Violation {
	t := x.T
	ncall := 2 + t.Draw(4)
	callers := make([]func() string, ncall)
	calls := 0
	for ci := range callers {
		type job struct {
			ins  *prover.InsertionParameters
			del  *prover.DeletionParameters
			want *big.Int
		}
		var jobs []job
		n := 1 + t.Draw(4)
		for k := 0; k < n; k++ {
			batch := 1 + t.Draw(6)
			pre, post := c08Val(t), c08Val(t)
			if t.Chance(1, 2) {
				p := &prover.InsertionParameters{StartIndex: t.U32()}
				p.PreRoot, p.PostRoot = *new(big.Int).Set(pre), *new(big.Int).Set(post)
				var comms []*big.Int
				for i := 0; i < batch; i++ {
					v := c08Val(t)
					comms = append(comms, v)
					p.IdComms = append(p.IdComms, *new(big.Int).Set(v))
				}
				jobs = append(jobs, job{ins: p, want: oracle.InsertionHash(p.StartIndex, pre, post, comms)})
			} else {
				p := &prover.DeletionParameters{}
				p.PreRoot, p.PostRoot = *new(big.Int).Set(pre), *new(big.Int).Set(post)
				var ix []uint32
				for i := 0; i < batch; i++ {
					ix = append(ix, t.U32())
				}
				p.DeletionIndices = append(p.DeletionIndices, ix...)
				jobs = append(jobs, job{del: p, want: oracle.DeletionHash(ix, pre, post)})
			}
			calls++
		}
		callers[ci] = func() string {
			for k, j := range jobs {
				var got *big.Int
				var err error
				which := "insertion"
				if j.ins != nil {
					err = j.ins.ComputeInputHashInsertion()
					got = &j.ins.InputHash
				} else {
					which = "deletion"
					err = j.del.ComputeInputHashDeletion()
					got = &j.del.InputHash
				}
				if err != nil {
					return fmt.Sprintf("helper=%s/error: call %d: %v", which, k, err)
				}
				if oracle.Mod(got).Cmp(j.want) != 0 {
					return fmt.Sprintf("helper=%s/hash-differs: call %d returned %s, the contract packing of the same parameters hashes to %s", which, k, got.Text(16), j.want.Text(16))
				}
			}
			return ""
		}
	}
	x.S.Eval(int64(calls))
	x.S.Count("fault:schedule/interleaved-callers-of-the-hash-helpers")
	res, sim, err := service.RunCallers(t, x.Log, x.S, callers)
	return callersVerdict(x, "C08", fmt.Sprintf("%d ComputeInputHash* calls", calls), res, sim, err)
}

// --- C10 -------------------------------------------------------------------------------------------

func (c *C10) concurrentCallers(x *engine.Ctx) *engine.Violation {
	t := x.T
	ncall := 2 + t.Draw(4)
	callers := make([]func() string, ncall)
	calls := 0
	for ci := range callers {
		type job struct {
			p     groth16.Proof
			truth [8]*big.Int
		}
		var jobs []job
		n := 1 + t.Draw(4)
		for k := 0; k < n; k++ {
			a, cc := c.sp.G1[t.Pick(len(c.sp.G1))], c.sp.G1[t.Pick(len(c.sp.G1))]
			b := c.sp.G2[t.Pick(len(c.sp.G2))]
			if t.Chance(1, 10) {
				a = c.sp.G1[0]
			}
			p, err := gtier.FromCoordinates(gtier.CoordsOfPoints(a, b, cc))
			if err != nil {
				panic(err)
			}
			truth, err := gtier.Coordinates(p)
			if err != nil {
				panic(err)
			}
			jobs = append(jobs, job{p, truth})
			calls++
		}
		callers[ci] = func() string {
			for k, j := range jobs {
				enc, err := json.Marshal(&prover.Proof{Proof: j.p})
				if err != nil {
					return fmt.Sprintf("encode-error: proof %d: %v", k, err)
				}
				dec, err := gtier.DecodeJSON(enc)
				if err != nil {
					return fmt.Sprintf("encoding-not-documented-json: proof %d: %v in %s", k, err, string(enc))
				}
				for i := range dec {
					if dec[i].Cmp(j.truth[i]) != 0 {
						return fmt.Sprintf("encoding-not-in-evm-order: proof %d: JSON coordinate %d is %s, the proof has %s", k, i, dec[i].Text(16), j.truth[i].Text(16))
					}
				}
				var back prover.Proof
				if err := json.Unmarshal(enc, &back); err != nil {
					return fmt.Sprintf("roundtrip-fails: proof %d: UnmarshalJSON of the repository's own encoding fails: %v", k, err)
				}
				got, err := gtier.Coordinates(back.Proof)
				if err != nil {
					return fmt.Sprintf("roundtrip-fails: proof %d: decoded proof has no coordinates: %v", k, err)
				}
				for i := range got {
					if got[i].Cmp(j.truth[i]) != 0 {
						return fmt.Sprintf("roundtrip-fails: proof %d: coordinate %d decodes to %s, original %s", k, i, got[i].Text(16), j.truth[i].Text(16))
					}
				}
			}
			return ""
		}
	}
	x.S.Eval(int64(calls))
	x.S.Count("fault:schedule/interleaved-callers-of-the-proof-codec")
	res, sim, err := service.RunCallers(t, x.Log, x.S, callers)
	return callersVerdict(x, "C10", fmt.Sprintf("%d proof JSON round trips", calls), res, sim, err)
}

// --- C18 -------------------------------------------------------------------------------------------

func (c *C18) concurrentCallers(x *engine.Ctx) *engine.Violation {
	t := x.T
	ncall := 2 + t.Draw(3)
	callers := make([]func() string, ncall)
	calls := 0
	for ci := range callers {
		type step struct {
			idx               uint64
			val, prev         *big.Int
			prevRoot, newRoot *big.Int
		}
		depth := 1 + t.Draw(10)
		if t.Chance(1, 6) {
			depth = 20 + t.Draw(13)
		}
		size := uint64(1) << uint(depth)
		model := oracle.NewTree(depth)
		empty := new(big.Int).Set(model.Root())
		var steps []step
		n := 1 + t.Draw(6)
		for k := 0; k < n; k++ {
			idx := uint64(t.Draw(8)) % size
			if t.Chance(1, 3) {
				idx = t.BigBelow(new(big.Int).SetUint64(size)).Uint64()
			}
			var val *big.Int
			switch t.Weighted(4, 1, 2) {
			case 0:
				val = t.BigBelow(oracle.R)
			case 1:
				val = big.NewInt(0)
			default:
				val = new(big.Int).Lsh(big.NewInt(int64(1+t.Draw(5))), uint(8*t.Draw(4)))
			}
			st := step{idx: idx, val: val, prev: new(big.Int).Set(model.Get(idx)), prevRoot: new(big.Int).Set(model.Root())}
			model.Set(idx, val)
			st.newRoot = new(big.Int).Set(model.Root())
			steps = append(steps, st)
			calls++
		}
		callers[ci] = func() string {
			tree := poseidon_tree.NewTree(depth)
			if r := tree.Root(); r.Cmp(empty) != 0 {
				return fmt.Sprintf("empty-root-differs: depth %d: %s, recomputation %s", depth, r.String(), empty.String())
			}
			for k, s := range steps {
				path := tree.Update(int(s.idx), *s.val)
				if r := tree.Root(); r.Cmp(s.newRoot) != 0 {
					return fmt.Sprintf("root-differs-from-recomputation: depth %d step %d (leaf %d): tree %s, recomputation %s", depth, k, s.idx, r.String(), s.newRoot.String())
				}
				if len(path) != depth {
					return fmt.Sprintf("path-has-wrong-length: depth %d step %d: %d siblings", depth, k, len(path))
				}
				pp := toBig(path)
				if oracle.MerkleRoot(s.prev, s.idx, pp).Cmp(s.prevRoot) != 0 {
					return fmt.Sprintf("path-does-not-authenticate-previous-value: depth %d step %d (leaf %d)", depth, k, s.idx)
				}
				if oracle.MerkleRoot(s.val, s.idx, pp).Cmp(s.newRoot) != 0 {
					return fmt.Sprintf("path-does-not-authenticate-new-value: depth %d step %d (leaf %d)", depth, k, s.idx)
				}
			}
			return ""
		}
	}
	x.S.Eval(int64(calls))
	x.S.Count("fault:schedule/interleaved-histories-on-separate-trees")
	res, sim, err := service.RunCallers(t, x.Log, x.S, callers)
	return callersVerdict(x, "C18", fmt.Sprintf("%d tree updates on %d separate trees", calls, ncall), res, sim, err)
}

// --- C07 -------------------------------------------------------------------------------------------

// concurrentCallers: 2..3 caller tasks hand their own parameter sets to ProveInsertion/ProveDeletion of ONE
// shared proving system, interleaved at every statement of the instrumented prover package. A caller's set is a
// fresh valid batch (owed a proof that verifies for its own input hash) or the invalid twin of another caller's
// valid batch (same stated input hash, one sibling / commitment / root changed: owed an error and no proof).
// Whatever the prover shares between calls (buffers, caches, pools) must not let one call decide another's result.
func (c *C07) concurrentCallers(x *engine.Ctx) *engine.Violation {
	t := x.T
	var s *gtier.System
	for _, cand := range []*gtier.System{c.g.systems[t.Pick(2)], c.g.systems[0], c.g.systems[1]} {
		if cand.Depth <= 12 {
			s = cand
			break
		}
	}
	if s == nil {
		return nil
	}
	gtier.SeedRand(uint64(t.U32())<<32|uint64(t.U32()), uint64(t.U32()))
	ncall := 2 + t.Draw(3)
	type job struct {
		ins   *prover.InsertionParameters
		del   *prover.DeletionParameters
		hash  *big.Int
		valid bool
		kind  string
	}
	jobsOf := make([][]job, ncall)
	var valids []job
	var validIW []*oracle.InsertionWitness
	var validDW []*oracle.DeletionWitness
	mkValid := func() job {
		if s.Mode == rollup.Insertion {
			w, _ := validInsertion(t, s)
			validIW = append(validIW, w)
			validDW = append(validDW, nil)
			return job{ins: gtier.InsertionParams(w), hash: w.InputHash, valid: true, kind: "valid"}
		}
		w, _ := validDeletion(t, s)
		validIW = append(validIW, nil)
		validDW = append(validDW, w)
		return job{del: gtier.DeletionParams(w), hash: w.InputHash, valid: true, kind: "valid"}
	}
	bump := func(v *big.Int) { v.Add(v, big.NewInt(int64(1+t.Draw(3)))) }
	mkTwin := func(k int) (job, bool) {
		if iw := validIW[k]; iw != nil {
			p := gtier.InsertionParams(iw)
			kind := ""
			switch t.Draw(3) {
			case 0:
				row := t.Pick(len(p.MerkleProofs))
				bump(&p.MerkleProofs[row][t.Pick(len(p.MerkleProofs[row]))])
				kind = "twin-other-sibling"
			case 1:
				bump(&p.IdComms[t.Pick(len(p.IdComms))])
				kind = "twin-other-commitment"
			default:
				bump(&p.PostRoot)
				kind = "twin-other-post-root"
			}
			return job{ins: p, hash: iw.InputHash, kind: kind}, true
		}
		dw := validDW[k]
		p := gtier.DeletionParams(dw)
		size := uint64(1) << uint(s.Depth)
		kind := ""
		switch t.Draw(2) {
		case 0:
			// a sibling of a real (non-padding) slot
			for row := range p.MerkleProofs {
				if uint64(p.DeletionIndices[row]) < size && dw.Items[row].Sign() != 0 {
					bump(&p.MerkleProofs[row][t.Pick(len(p.MerkleProofs[row]))])
					kind = "twin-other-sibling"
					break
				}
			}
			if kind == "" {
				bump(&p.PostRoot)
				kind = "twin-other-post-root"
			}
		default:
			bump(&p.PreRoot)
			kind = "twin-other-pre-root"
		}
		return job{del: p, hash: dw.InputHash, kind: kind}, true
	}
	calls := 0
	for ci := 0; ci < ncall; ci++ {
		n := 2 + t.Draw(3)
		for k := 0; k < n; k++ {
			if len(valids) > 0 && t.Chance(1, 2) {
				if j, ok := mkTwin(t.Pick(len(valids))); ok {
					jobsOf[ci] = append(jobsOf[ci], j)
					calls++
					continue
				}
			}
			j := mkValid()
			valids = append(valids, j)
			jobsOf[ci] = append(jobsOf[ci], j)
			calls++
		}
	}
	callers := make([]func() string, ncall)
	for ci := range callers {
		jobs := jobsOf[ci]
		callers[ci] = func() string {
			for k, j := range jobs {
				var p *prover.Proof
				var err error
				if j.ins != nil {
					p, err = safeProveIns(s, j.ins)
				} else {
					p, err = safeProveDel(s, j.del)
				}
				if isPanic(err) {
					return fmt.Sprintf("prover-panics: call %d (%s): %v", k, j.kind, err)
				}
				if j.valid {
					if err != nil || p == nil {
						return fmt.Sprintf("valid-batch-not-proved: call %d on %s: %v", k, s.Key(), err)
					}
					if verr := verifyVia(s, j.hash, p.Proof); verr != nil {
						return fmt.Sprintf("proof-does-not-verify-for-own-hash: call %d on %s, hash 0x%s: %v", k, s.Key(), j.hash.Text(16), verr)
					}
					continue
				}
				if err == nil {
					return fmt.Sprintf("invalid-parameters-proved: call %d on %s (%s, stated hash 0x%s): a proof and no error were returned", k, s.Key(), j.kind, j.hash.Text(16))
				}
			}
			return ""
		}
	}
	x.S.Eval(int64(calls))
	x.S.Count("fault:schedule/interleaved-callers-of-one-proving-system")
	res, sim, err := service.RunCallersWith([]int{service.StratPCT, service.StratPCT, service.StratPCT, service.StratSticky, service.StratUniform, service.StratStarve}, t, x.Log, x.S, callers)
	return callersVerdict(x, "C07", fmt.Sprintf("%d prover calls on %s", calls, s.Key()), res, sim, err)
}
