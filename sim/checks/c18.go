package checks

import (
	"fmt"
	"math/big"

	"verifsim/engine"
	"verifsim/oracle"

	"worldcoin/gnark-mbu/poseidon_tree"
)

// C18: the sequencer's off-chain tree (real code) against the contract's leaf array (model)
// over seeded histories of updates, with persistent-structure aliasing probes.
type C18 struct{ base }

func init() { register(&C18{base{id: "C18", level: "exploration"}}) }

func (c *C18) Rule() string {
	return "one run = one seeded history of 1..200 Update calls on one poseidon_tree.PoseidonTree (depth 1..32) in lock-step with an independent sparse leaf-array model (iden3 Poseidon, own recursion); evaluations = updates checked; a case is non-trivial when the update overwrites or neighbours an earlier write (shares a subtree of height <= 3) or targets an extreme index; distinct = (depth, index class, overwrite/zero/neighbour flags, history-length bucket); every tenth run is a World L run: 2..4 caller tasks replay their own histories on their own trees, interleaved by the tape at every statement of the instrumented tree code; one run in 64 is a long history: 40 000..100 000 node writes on one tree over a working set of 48 leaves, each path checked against the tree's own roots, the model's root every 61 updates"
}
func (c *C18) Assumptions() []string {
	return []string{"iden3 go-iden3-crypto Poseidon is the reference hash (the repository's tree uses the same library; left/right order, empty-subtree table, path order and recursion are re-derived independently)", "PoseidonTree.Update takes a Go int index: indices up to 2^32-1 are exercised on this 64-bit platform only"}
}
func (c *C18) Real() []string { return []string{"poseidon_tree.PoseidonTree (NewTree, Update, Root)"} }
func (c *C18) Simulated() []string {
	return []string{"contract leaf array and root recomputation (reference model)", "sequence of sequencer updates (seeded history)"}
}
func (c *C18) Plan(tier string) engine.Plan {
	if tier == "thorough" {
		return engine.Plan{Runs: 400000, Workers: 16, BudgetSec: 1200, ShrinkSec: 120}
	}
	return engine.Plan{Runs: 4000, Workers: 8, BudgetSec: 40, ShrinkSec: 30}
}

func (c *C18) Run(x *engine.Ctx) *engine.Violation {
	t := x.T
	if x.Run%10 == 9 {
		return c.concurrentCallers(x) // World L: interleaved histories on separate trees
	}
	if x.Run%64 == 21 {
		return c.longHistory(x) // one tree, thousands of updates: whatever the tree allocates, grows or recycles gets exercised
	}
	var depth int
	switch t.Weighted(6, 2, 2) {
	case 0:
		depth = t.Range(1, 6)
	case 1:
		depth = t.Range(7, 20)
	default:
		depth = t.Range(21, 32)
	}
	n := t.Range(1, 12)
	if t.Chance(1, 8) {
		n = t.Range(13, 200)
	}
	size := uint64(1) << uint(depth)
	real := poseidon_tree.NewTree(depth)
	model := oracle.NewTree(depth)
	x.Log.Addf("seq", "new", "depth=%d n=%d", depth, n)
	if r := real.Root(); r.Cmp(model.Root()) != 0 {
		return engine.Violatef("C18/empty-root-differs", "depth %d: empty root %s, recomputation %s", depth, r.String(), model.Root().String())
	}
	var written []uint64
	type snap struct {
		root  big.Int  // the value Root() returned (shares words with whatever the tree keeps)
		rootC *big.Int // deep copy taken at that moment
		path  []big.Int
		pathC []*big.Int
	}
	var keep *snap
	var sample []string
	for step := 0; step < n; step++ {
		var idx uint64
		cls := ""
		switch t.Weighted(5, 3, 2, 2, 1, 1) {
		case 0:
			idx = uint64(t.U32()) % size
			if depth > 6 {
				idx = (uint64(t.U32())<<16 ^ uint64(t.U32())) % size
			}
			cls = "rand"
		case 1:
			if len(written) > 0 {
				idx = written[t.Pick(len(written))]
				cls = "overwrite"
			} else {
				idx = 0
				cls = "first"
			}
		case 2:
			if len(written) > 0 {
				idx = written[t.Pick(len(written))] ^ uint64(1+t.Draw(7))
				idx %= size
				cls = "neighbour"
			} else {
				idx = size - 1
				cls = "last"
			}
		case 3:
			idx = uint64(t.Draw(4))
			idx %= size
			cls = "first"
		case 4:
			idx = size - 1 - uint64(t.Draw(2))%size
			cls = "last"
		default:
			idx = (size / 2) - uint64(t.Draw(2))
			idx %= size
			cls = "middle"
		}
		var val *big.Int
		vcls := "rand"
		switch t.Weighted(6, 2, 1, 1, 2) {
		case 0:
			val = t.BigBelow(oracle.R)
		case 1:
			val = big.NewInt(0)
			vcls = "zero"
		case 2:
			val = big.NewInt(int64(1 + t.Draw(5)))
			vcls = "small"
		case 3:
			val = new(big.Int).Sub(oracle.R, big.NewInt(int64(1+t.Draw(2))))
			vcls = "r-1"
		default:
			// a value RELATED to something the history already contains: anything a lossy key, a
			// variable-length encoding or a confusion of leaves with inner nodes could mix up
			base := big.NewInt(int64(1 + t.Draw(5)))
			if len(written) > 0 && t.Chance(2, 3) {
				base = new(big.Int).Set(model.Get(written[t.Pick(len(written))]))
			}
			vcls = "related"
			switch t.Draw(9) {
			case 0: // the same value again, at whatever index was drawn
				val = base
			case 1: // shifted left by whole bytes (same minimal bytes followed by zero bytes)
				val = new(big.Int).Lsh(base, uint(8*(1+t.Draw(4))))
			case 2: // shifted right by whole bytes
				val = new(big.Int).Rsh(base, uint(8*(1+t.Draw(4))))
			case 3: // byte order reversed
				b := base.Bytes()
				for i, j := 0, len(b)-1; i < j; i, j = i+1, j-1 {
					b[i], b[j] = b[j], b[i]
				}
				val = new(big.Int).SetBytes(b)
			case 4: // neighbour
				val = new(big.Int).Add(base, big.NewInt(1))
			case 5: // a power of two or one below it, of any byte length
				val = new(big.Int).Lsh(big.NewInt(1), uint(1+t.Draw(253)))
				if t.Chance(1, 2) {
					val.Sub(val, big.NewInt(1))
				}
			case 6: // a random value of a drawn byte length (1..31 bytes)
				val = t.BigBelow(new(big.Int).Lsh(big.NewInt(1), uint(8*(1+t.Draw(31)))))
			case 7: // the current root, or the root of an empty subtree: an inner-node value used as a leaf
				val = new(big.Int).Set(model.Root())
				if t.Chance(1, 2) {
					val = new(big.Int).Set(oracle.NewTree(1 + t.Draw(depth)).Root())
				}
			default: // the sum / xor of two earlier values
				o := big.NewInt(int64(t.Draw(300)))
				if len(written) > 1 {
					o = model.Get(written[t.Pick(len(written))])
				}
				val = new(big.Int).Xor(base, o)
			}
			val.Mod(val, oracle.R)
		}
		prevVal := model.Get(idx)
		prevRoot := model.Root()
		realPrev := real.Root()
		if realPrev.Cmp(prevRoot) != 0 {
			return engine.Violatef("C18/root-differs-before-update", "depth %d step %d", depth, step)
		}
		path := real.Update(int(idx), *val)
		model.Set(idx, val)
		x.S.Eval(1)
		newRoot := model.Root()
		got := real.Root()
		x.Log.Addf("seq", "update", "idx=%d val=%s root=%s", idx, val.Text(16), got.Text(16))
		if x.S.WantSample() && len(sample) < 12 {
			sample = append(sample, fmt.Sprintf("Update(%d, 0x%s) -> root 0x%s", idx, val.Text(16), got.Text(16)))
		}
		if got.Cmp(newRoot) != 0 {
			return engine.Violatef("C18/root-differs-from-recomputation", "depth %d step %d idx %d (%s,%s): tree root %s, recomputed %s", depth, step, idx, cls, vcls, got.Text(16), newRoot.Text(16))
		}
		if len(path) != depth {
			return engine.Violatef("C18/path-length", "depth %d: path has %d entries", depth, len(path))
		}
		pp := make([]*big.Int, depth)
		for i := range path {
			pp[i] = new(big.Int).Set(&path[i])
		}
		if oracle.MerkleRoot(prevVal, idx, pp).Cmp(prevRoot) != 0 {
			return engine.Violatef("C18/path-does-not-authenticate-previous-value", "depth %d step %d idx %d (%s): returned path with previous value does not give previous root", depth, step, idx, cls)
		}
		if oracle.MerkleRoot(val, idx, pp).Cmp(newRoot) != 0 {
			return engine.Violatef("C18/path-does-not-authenticate-new-value", "depth %d step %d idx %d (%s)", depth, step, idx, cls)
		}
		// independent path of the model must be the very same siblings
		mp := model.Path(idx)
		for i := range mp {
			if mp[i].Cmp(pp[i]) != 0 {
				return engine.Violatef("C18/sibling-differs", "depth %d step %d idx %d level %d", depth, step, idx, i)
			}
		}
		// aliasing probe: an earlier returned path and root value must be unchanged
		if keep != nil {
			x.S.Count("probe:aliasing_checked")
			for i := range keep.path {
				if keep.path[i].Cmp(keep.pathC[i]) != 0 {
					return engine.Violatef("C18/earlier-path-mutated", "depth %d step %d: a path returned earlier changed at level %d", depth, step, i)
				}
			}
			if keep.root.Cmp(keep.rootC) != 0 {
				return engine.Violatef("C18/earlier-root-value-mutated", "depth %d step %d: a value returned earlier by Root() changed after later updates", depth, step)
			}
		}
		if keep == nil || t.Chance(1, 4) {
			keep = &snap{root: got, rootC: new(big.Int).Set(&got), path: path, pathC: pp}
		}
		nontrivial := cls != "rand" || len(written) > 0 && depth <= 6
		if nontrivial {
			x.S.Seen(fmt.Sprintf("d%d/%s/%s/prev0=%v/len%d", depth, cls, vcls, prevVal.Sign() == 0, bucket(step)))
		}
		if cls == "overwrite" {
			x.S.Count("probe:overwrite")
		}
		if vcls == "zero" && prevVal.Sign() != 0 {
			x.S.Count("probe:cleared_nonempty_leaf")
		}
		if idx == size-1 {
			x.S.Count("probe:last_leaf")
		}
		if idx >= 1<<31 {
			x.S.Count("probe:index_ge_2^31")
		}
		written = append(written, idx)
		// untouched leaves keep their values: spot-check one earlier leaf through a no-op rewrite on a copy is
		// not available (the tree has no read API), so check through the model path of another written leaf
		if len(written) > 1 && t.Chance(1, 3) {
			o := written[t.Pick(len(written)-1)]
			if o != idx {
				// rewriting the leaf's current model value must leave the root unchanged and return a path
				// that authenticates that same value: this reads the untouched leaf back.
				cur := model.Get(o)
				p2 := real.Update(int(o), *cur)
				x.S.Eval(1)
				r2 := real.Root()
				x.Log.Addf("seq", "readback", "idx=%d root=%s", o, r2.Text(16))
				if r2.Cmp(newRoot) != 0 {
					return engine.Violatef("C18/untouched-leaf-changed", "depth %d step %d: rewriting leaf %d with its own value changed the root", depth, step, o)
				}
				q := make([]*big.Int, depth)
				for i := range p2 {
					q[i] = &p2[i]
				}
				if oracle.MerkleRoot(cur, o, q).Cmp(newRoot) != 0 {
					return engine.Violatef("C18/untouched-leaf-path-wrong", "depth %d step %d leaf %d", depth, step, o)
				}
				x.S.Count("probe:readback")
			}
		}
	}
	if fr := model.RootFresh(); fr.Cmp(func() *big.Int { r := real.Root(); return &r }()) != 0 {
		return engine.Violatef("C18/final-root-differs-from-full-recomputation", "depth %d after %d updates", depth, n)
	}
	if len(sample) > 0 {
		x.S.Sample(map[string]any{"depth": depth, "history": sample})
	}
	return nil
}

func bucket(n int) int {
	switch {
	case n < 2:
		return n
	case n < 5:
		return 2
	case n < 13:
		return 5
	case n < 50:
		return 13
	default:
		return 50
	}
}

// longHistory: "after ANY sequence of leaf updates" includes long ones. One tree takes thousands of updates
// (40 000..100 000 node writes in all, whatever the depth) on a working set of at most 48 leaves - first, last
// and scattered indices, overwritten again and again, zero now and then. Every update's path is checked against
// the tree's own roots before and after (so a lost or half-applied update shows at once); the independent model
// recomputes the root every 61 updates and at the end.
func (c *C18) longHistory(x *engine.Ctx) *engine.Violation {
	t := x.T
	depth := t.Range(1, 32)
	size := uint64(1) << uint(depth)
	var ws []uint64
	for i := 0; i < 48; i++ {
		var idx uint64
		switch t.Draw(4) {
		case 0:
			idx = uint64(t.Draw(6)) % size
		case 1:
			idx = size - 1 - uint64(t.Draw(6))%size
		default:
			idx = (uint64(t.U32())<<16 ^ uint64(t.U32())) % size
		}
		ws = append(ws, idx)
	}
	writes := t.Range(40000, 100000)
	n := writes / (depth + 1)
	real := poseidon_tree.NewTree(depth)
	model := oracle.NewTree(depth)
	x.S.Count("probe:long_history_runs")
	x.Log.Addf("seq", "long", "depth=%d n=%d", depth, n)
	for step := 0; step < n; step++ {
		idx := ws[t.Pick(len(ws))]
		val := t.BigBelow(oracle.R)
		if t.Chance(1, 8) {
			val = big.NewInt(0)
		}
		prevVal := model.Get(idx)
		before := real.Root()
		prevRoot := new(big.Int).Set(&before)
		path := real.Update(int(idx), *val)
		model.Set(idx, val)
		x.S.Eval(1)
		if len(path) != depth {
			return engine.Violatef("C18/path-length", "long history, depth %d step %d: path has %d entries", depth, step, len(path))
		}
		pp := make([]*big.Int, depth)
		for i := range path {
			pp[i] = new(big.Int).Set(&path[i])
		}
		after := real.Root()
		if oracle.MerkleRoot(prevVal, idx, pp).Cmp(prevRoot) != 0 {
			return engine.Violatef("C18/path-does-not-authenticate-previous-value", "long history, depth %d, update %d of %d, idx %d: returned path with the previous value does not give the previous root", depth, step, n, idx)
		}
		if oracle.MerkleRoot(val, idx, pp).Cmp(&after) != 0 {
			return engine.Violatef("C18/path-does-not-authenticate-new-value", "long history, depth %d, update %d of %d, idx %d: returned path with the new value does not give the root the tree reports afterwards", depth, step, n, idx)
		}
		if step%61 == 60 || step == n-1 {
			if want := model.Root(); after.Cmp(want) != 0 {
				return engine.Violatef("C18/root-differs-from-recomputation", "long history, depth %d, after update %d of %d: tree root %s, recomputed from the leaves %s", depth, step, n, after.Text(16), want.Text(16))
			}
		}
	}
	x.S.Seen(fmt.Sprintf("long/d%d/n%d", depth, n/1000))
	return nil
}
