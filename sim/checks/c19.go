package checks

import (
	"bytes"
	"encoding/json"
	"fmt"
	"math/big"
	"os"
	"path/filepath"
	"strconv"
	"strings"
	"syscall"
	"time"

	"verifsim/engine"
	"verifsim/gtier"
	"verifsim/ops"
	"verifsim/oracle"
	"verifsim/rollup"
	"verifsim/service"
	"verifsim/tape"

	"worldcoin/gnark-mbu/prover"
)

// C19: the command-line pipeline as fresh OS processes over shared files, with faults between
// the steps; the reference verdict comes from our own decoder, the contract's hash and gnark's
// verifier under the keys file's verifying key.
type C19 struct {
	base
	initProblem string
	dir         string
	keys        []*cliKeys
	w           int
	dur         map[string]time.Duration // how long the last unsignalled command of each kind took
}

type cliKeys struct {
	sys        *gtier.System // loaded from the file for the reference verdict
	path       string
	compressed string // the same system in the compressed format ("" if not made)
}

// file returns the keys file to hand to a command: now and then the compressed-format copy.
func (k *cliKeys) file(t *tape.Tape) string {
	if k.compressed != "" && t.Chance(1, 3) {
		return k.compressed
	}
	return k.path
}

func init() { register(&C19{base: base{id: "C19", level: "exploration"}, w: -1}) }

func (c *C19) Rule() string {
	return "one run = a history of 5..10 CLI commands (fresh `gnark-mbu` processes built from the current tree, seeded crypto/rand through the tag-guarded hook) over one scratch directory holding an insertion and a deletion keys file made by `gnark-mbu setup` (dimensions include ones whose gen-test-params roots have a leading zero byte): gen-test-params, prove, verify, with faults between the steps (tampered / truncated / reordered proof JSON, neighbouring, foreign and non-numeric input hashes, keys of the other mode, absent / misspelt / mismatching --mode, missing and truncated keys files, invalid and malformed parameters); oracle: prove's stdout is exactly one proof JSON plus newline and exit 0 iff the parameters are provable under the keys; verify exits 0 iff the reference verdict (own decoder, gnark verifier with the file's verifying key) says valid; evaluations = commands judged; non-trivial = command with a fault or a proof/root with a short big-endian form; distinct = (command, mode relation, fault, expected, observed)"
}
func (c *C19) Assumptions() []string {
	return []string{"separate OS processes are scheduled by the kernel (uncontrolled); every assertion is on exit status and stdout, which are deterministic functions of arguments, stdin, files and the seeded random stream", "the reference verifier loads the keys file with the repository's own reader (C11/C15 decide that reader)"}
}
func (c *C19) Real() []string {
	return []string{"the gnark-mbu binary built from the current tree with the repository's toolchain (commands setup, gen-test-params, prove, verify)", "files on the real file system"}
}
func (c *C19) Simulated() []string {
	return []string{"operator issuing command histories (seeded)", "faults between steps: file truncation/deletion, tampering, wrong arguments", "crypto/rand of every process (seeded through main_verif.go)"}
}
func (c *C19) Plan(tier string) engine.Plan {
	if tier == "thorough" {
		return engine.Plan{Runs: 100000, Workers: 8, BudgetSec: 1500, ShrinkSec: 120}
	}
	return engine.Plan{Runs: 100000, Workers: 6, BudgetSec: 75, ShrinkSec: 60}
}

// genParamsRoots mirrors what gen-test-params *should* describe (property text): insertion of
// commitments 1..batch at 0.. into the empty tree; deletion of the even leaves of a tree
// holding 1..2*batch.
func genParamsRoots(mode string, depth, batch int) (pre, post *big.Int) {
	m := oracle.NewTree(depth)
	if mode == rollup.Insertion {
		pre = m.Root()
		for i := 0; i < batch; i++ {
			m.Set(uint64(i), big.NewInt(int64(i+1)))
		}
		return pre, m.Root()
	}
	for i := 0; i < 2*batch; i++ {
		m.Set(uint64(i), big.NewInt(int64(i+1)))
	}
	pre = m.Root()
	for i := 0; i < batch; i++ {
		m.Set(uint64(2*i), big.NewInt(0))
	}
	return pre, m.Root()
}

// shortRootDims lists small dimensions whose gen-test-params roots have a leading zero byte.
func shortRootDims(mode string) []dims {
	var out []dims
	for depth := 2; depth <= 12; depth++ {
		for batch := 1; batch <= 3; batch++ {
			if mode == rollup.Insertion && (1<<uint(depth)) < batch {
				continue
			}
			if mode == rollup.Deletion && (1<<uint(depth)) < 2*batch {
				continue
			}
			pre, post := genParamsRoots(mode, depth, batch)
			if shortBytes(pre) > 0 || shortBytes(post) > 0 {
				out = append(out, dims{mode, depth, batch})
			}
		}
	}
	return out
}

func (c *C19) Init(tier string, worker, nworkers int, seed uint64) error {
	if c.keys != nil && c.w == worker {
		return nil
	}
	dir, err := ops.Scratch(fmt.Sprintf("c19-w%d-%d", worker, os.Getpid()))
	if err != nil {
		return err
	}
	c.dir, c.w, c.keys = dir, worker, nil
	pick := func(mode string) dims {
		sr := shortRootDims(mode)
		if len(sr) > 0 && worker%2 == 0 {
			return sr[(worker/2)%len(sr)]
		}
		return dims{mode, 2 + worker%3, 1 + worker%2}
	}
	for _, d := range []dims{pick(rollup.Insertion), pick(rollup.Deletion)} {
		path := filepath.Join(dir, fmt.Sprintf("%s-%d-%d.ps", d.mode, d.depth, d.batch))
		stale := worker%3 == 1
		if stale {
			// history: the output path already holds an older, larger keys file (a previous setup for bigger
			// dimensions written to the same path); the new setup must replace it, not write into it
			if err := os.WriteFile(path, bytes.Repeat([]byte{0xAB, 0x01, 0x00, 0xFF}, 40<<20), 0o644); err != nil {
				return err
			}
		}
		r := ops.Run(ops.Cmd{Args: []string{"setup", "--mode", d.mode, "--tree-depth", strconv.Itoa(d.depth), "--batch-size", strconv.Itoa(d.batch), "--output", path},
			RandSeed: fmt.Sprintf("setup-%s-%d-%d", d.mode, d.depth, d.batch)})
		if r.Exit != 0 {
			return fmt.Errorf("gnark-mbu setup %v failed: %s", d, ops.Describe(r))
		}
		ps, err := prover.ReadSystemFromFile(path)
		if err != nil {
			// `setup` reported success and the same tree cannot load what it wrote: the pipeline does not compose.
			// The harness needs a loaded system to go on, so this worker reports the problem in every run.
			c.initProblem = fmt.Sprintf("`gnark-mbu setup --mode %s --tree-depth %d --batch-size %d --output <path>` exited 0 (output path held an older, larger file: %v), but the keys file it wrote does not load: %v", d.mode, d.depth, d.batch, stale, err)
			c.keys = append(c.keys, &cliKeys{sys: &gtier.System{Mode: d.mode, Depth: d.depth, Batch: d.batch}, path: path})
			continue
		}
		if stale {
			var ref bytes.Buffer
			if _, err := ps.WriteRawTo(&ref); err == nil {
				if fi, err := os.Stat(path); err == nil && fi.Size() != int64(ref.Len()) {
					c.initProblem = fmt.Sprintf("`gnark-mbu setup` over an existing larger file left %d bytes at the output path; the system it describes serialises to %d bytes (stale tail of the older file kept)", fi.Size(), ref.Len())
				}
			}
		}
		if ps.TreeDepth != uint32(d.depth) || ps.BatchSize != uint32(d.batch) {
			// the pipeline does not compose: `setup` wrote a file that reads back as another system
			c.initProblem = fmt.Sprintf("`gnark-mbu setup --mode %s --tree-depth %d --batch-size %d` wrote a keys file that loads as depth %d batch %d", d.mode, d.depth, d.batch, ps.TreeDepth, ps.BatchSize)
		}
		k := &cliKeys{sys: &gtier.System{Mode: d.mode, Depth: d.depth, Batch: d.batch, PS: ps}, path: path}
		// the same system in the compressed format (what older deployments hold): written by the library
		if worker%2 == 1 {
			cp := path + ".compressed"
			f, err := os.Create(cp)
			if err != nil {
				return err
			}
			if _, err := ps.WriteTo(f); err != nil {
				f.Close()
				return fmt.Errorf("writing compressed keys: %w", err)
			}
			f.Close()
			k.compressed = cp
		}
		c.keys = append(c.keys, k)
	}
	return nil
}

func (c *C19) Finish(s *engine.Stats, tier string) error {
	if c.dir != "" {
		os.RemoveAll(c.dir)
	}
	return nil
}

type cliParams struct {
	mode string
	doc  []byte
	hash *big.Int // input hash stated in the document
	ok   bool     // provable: valid batch of the right shape whose stated hash is the contract's
	from string
}

type cliProof struct {
	keys *cliKeys
	hash *big.Int
	json []byte
}

func oneJSONLine(b []byte) ([]byte, bool) {
	if len(b) == 0 || b[len(b)-1] != '\n' {
		return nil, false
	}
	body := b[:len(b)-1]
	if bytes.ContainsAny(body, "\n\r") || !json.Valid(body) {
		return nil, false
	}
	return body, true
}

// refVerify is the reference verdict for (keys, hash, proof JSON).
func refVerify(k *cliKeys, hash *big.Int, proofJSON []byte) bool {
	cs, err := gtier.DecodeJSON(proofJSON)
	if err != nil {
		return false
	}
	p, err := gtier.FromCoordinates(cs)
	if err != nil {
		return false
	}
	return gtier.VerifyWithVK(k.sys, p, hash) == nil
}

func (c *C19) Run(x *engine.Ctx) *engine.Violation {
	t := x.T
	if c.initProblem != "" {
		x.S.Eval(1)
		return engine.Violatef("C19/setup-keys-file-does-not-describe-the-requested-system", "%s", c.initProblem)
	}
	var params []*cliParams
	var proofs []*cliProof
	var lg []string
	logf := func(f string, a ...any) {
		if len(lg) < 40 {
			lg = append(lg, fmt.Sprintf(f, a...))
		}
	}
	seed := func() string { return strconv.FormatUint(uint64(t.U32()), 10) }
	n := t.Range(5, 10)
	for step := 0; step < n; step++ {
		k := c.keys[t.Pick(len(c.keys))]
		op := t.Weighted(2, 4, 5)
		if len(params) == 0 {
			op = 0
		}
		if op == 2 && len(proofs) == 0 {
			op = 1
		}
		switch op {
		case 0: // produce parameters: the CLI generator, or a fresh valid batch written by the harness
			if t.Chance(1, 2) {
				r := ops.Run(ops.Cmd{Args: []string{"gen-test-params", "--mode", k.sys.Mode, "--tree-depth", strconv.Itoa(k.sys.Depth), "--batch-size", strconv.Itoa(k.sys.Batch)}, RandSeed: seed()})
				x.S.Eval(1)
				body, one := oneJSONLine(r.Stdout)
				x.Log.Addf("cli", "gen-test-params", "%s exit=%d oneline=%v", k.sys.Key(), r.Exit, one)
				if r.Exit != 0 || !one {
					return engine.Violatef("C19/gen-test-params-fails", "%s: %s stdout=%q", k.sys.Key(), ops.Describe(r), ops.Tail(r.Stdout, 120))
				}
				pre, post := genParamsRoots(k.sys.Mode, k.sys.Depth, k.sys.Batch)
				if shortBytes(pre) > 0 || shortBytes(post) > 0 {
					x.S.Count("probe:gen_test_params_with_short_root")
				}
				var doc map[string]any
				json.Unmarshal(body, &doc)
				h, _ := new(big.Int).SetString(strings.TrimPrefix(fmt.Sprint(doc["inputHash"]), "0x"), 16)
				params = append(params, &cliParams{mode: k.sys.Mode, doc: body, hash: h, ok: true, from: "gen-test-params"})
				logf("gen-test-params %s -> %d bytes", k.sys.Key(), len(body))
			} else {
				g := &service.Gen{T: t, Sys: k.sys}
				r := g.Valid()
				params = append(params, &cliParams{mode: k.sys.Mode, doc: r.Body, hash: r.Hash, ok: true, from: "sequencer"})
				logf("sequencer writes valid %s batch", k.sys.Key())
			}
		case 1: // prove
			var cand []*cliParams
			for _, p := range params {
				if p.mode == k.sys.Mode {
					cand = append(cand, p)
				}
			}
			var p *cliParams
			if len(cand) > 0 && !t.Chance(1, 6) {
				p = cand[t.Pick(len(cand))]
			} else {
				p = params[t.Pick(len(params))] // possibly of the other mode
			}
			mode, keysPath, stdin := p.mode, k.file(t), p.doc
			fault := "none"
			expectOK := p.ok && p.mode == k.sys.Mode
			mustFail := false // causes the property lists as ending in a non-zero exit
			switch t.Weighted(8, 1, 1, 1, 1, 1, 1, 2) {
			case 1:
				mode, fault, expectOK, mustFail = "", "mode-absent", false, true
			case 2:
				mode, fault, expectOK = []string{"Insertion", "insert", "deletions", "0", "insertion "}[t.Pick(5)], "mode-misspelt", false
				mustFail = true
			case 3:
				if mode == rollup.Insertion {
					mode = rollup.Deletion
				} else {
					mode = rollup.Insertion
				}
				// a known mode that does not fit the parameters: the property pins nothing except that
				// a success status must come with a proof that is valid under the keys
				fault, expectOK = "mode-wrong-for-parameters", false
			case 4:
				keysPath, fault, expectOK, mustFail = filepath.Join(c.dir, "does-not-exist.ps"), "keys-file-missing", false, true
			case 5:
				keysPath = filepath.Join(c.dir, fmt.Sprintf("trunc-%d.ps", x.Run))
				full, _ := os.ReadFile(k.path)
				cut := int(t.BigBelow(bigInt(int64(len(full)))).Int64())
				os.WriteFile(keysPath, full[:cut], 0o644)
				defer os.Remove(keysPath)
				fault, expectOK, mustFail = "keys-file-truncated", false, true
			case 6:
				var doc map[string]any
				json.Unmarshal(stdin, &doc)
				doc["postRoot"] = "0x" + t.BigBelow(oracle.R).Text(16)
				stdin, _ = json.Marshal(doc)
				fault, expectOK, mustFail = "parameters-invalid", false, true
			case 7:
				// what an interrupted or failed upstream stage of the pipeline leaves on stdin: nothing at all,
				// blank space only, or a prefix of the document cut anywhere
				switch t.Draw(4) {
				case 0:
					stdin = stdin[:len(stdin)/2]
				case 1:
					stdin = nil
				case 2:
					stdin = []byte(" \n\t\n")[:1+t.Draw(4)]
				default:
					stdin = stdin[:t.Draw(len(stdin))]
				}
				fault, expectOK, mustFail = "parameters-truncated", false, true
			}
			args := []string{"prove", "--keys-file", keysPath}
			if fault != "mode-absent" {
				args = append(args, "--mode", mode)
			}
			pc := ops.Cmd{Args: args, Stdin: stdin, RandSeed: seed(), Env: []string{"MTB_MODE="}}
			c.maybeSignal(t, &pc, "prove")
			t0 := time.Now()
			r := ops.Run(pc)
			c.noteDuration("prove", pc, time.Since(t0))
			x.S.Eval(1)
			if r.SignalSent {
				x.S.Count("fault:cli/prove/signal-while-running")
			}
			if fault != "none" {
				x.S.Count("fault:cli/prove/" + fault)
			}
			x.S.Seen(fmt.Sprintf("prove/%s/%s/%s/expect%v/exit%d", k.sys.Key(), p.from, fault, expectOK, r.Exit))
			x.Log.Addf("cli", "prove", "%s params=%s(%s) fault=%s expectOK=%v exit=%d", k.sys.Key(), p.from, p.mode, fault, expectOK, r.Exit)
			logf("prove keys=%s params=%s/%s fault=%s -> exit %d, %d bytes on stdout", k.sys.Key(), p.from, p.mode, fault, r.Exit, len(r.Stdout))
			if r.TimedOut {
				return engine.Violatef("C19/prove-hangs", "%s fault=%s", k.sys.Key(), fault)
			}
			if r.Exit == 0 {
				body, one := oneJSONLine(r.Stdout)
				if !one {
					return engine.Violatef("C19/prove-stdout-not-exactly-one-proof", "%s fault=%s: exit 0 but stdout is not one JSON document and a newline: %q", k.sys.Key(), fault, ops.Tail(r.Stdout, 200))
				}
				if _, err := gtier.DecodeJSON(body); err != nil {
					return engine.Violatef("C19/prove-stdout-not-exactly-one-proof", "%s fault=%s: exit 0 but stdout is not the documented proof JSON: %v", k.sys.Key(), fault, err)
				}
				if p.hash == nil || !refVerify(k, p.hash, body) {
					return engine.Violatef("C19/prove-exit-status-lies/success-without-valid-proof", "%s params=%s fault=%s: exit 0, but the printed proof does not verify for the parameters' input hash under the keys", k.sys.Key(), p.from, fault)
				}
				if mustFail {
					return engine.Violatef("C19/prove-exit-status-lies/success-on-"+fault, "%s params=%s: exit 0 with %s", k.sys.Key(), p.from, fault)
				}
				cs, _ := gtier.DecodeJSON(body)
				if gtier.ShortCoordinates(cs) > 0 {
					x.S.Count("probe:cli_proof_with_short_coordinate")
				}
				proofs = append(proofs, &cliProof{keys: k, hash: p.hash, json: body})
			} else {
				if len(bytes.TrimSpace(r.Stdout)) != 0 && !r.SignalSent {
					return engine.Violatef("C19/prove-writes-stdout-on-failure", "%s fault=%s: exit %d but stdout has %q", k.sys.Key(), fault, r.Exit, ops.Tail(r.Stdout, 120))
				}
				if expectOK && !r.SignalSent { // an interrupted command may die of the signal; it may not claim success wrongly
					cause := "plain"
					if p.from == "gen-test-params" {
						cause = "gen-test-params-output"
					}
					return engine.Violatef("C19/provable-parameters-rejected/"+cause, "%s params from %s: exit %d: %s", k.sys.Key(), p.from, r.Exit, ops.Tail(r.Stderr, 300))
				}
			}
		default: // verify
			pr := proofs[t.Pick(len(proofs))]
			vk := pr.keys
			mode := vk.sys.Mode
			hashArg := "0x" + pr.hash.Text(16)
			hashVal := pr.hash
			proofJSON := pr.json
			keysPath := vk.file(t)
			fault := "none"
			hashParses := true
			switch t.Weighted(6, 2, 1, 1, 1, 1, 1, 1, 1, 1, 1, 1, 1, 1) {
			case 11:
				hashArg, hashParses = hashArg+[]string{"zz", " ", "0x", "g1", ".0"}[t.Pick(5)], false
				fault = "hash-with-trailing-garbage"
			case 12:
				// the same proof, pretty-printed over several lines: still exactly the proof
				var anyv any
				json.Unmarshal(proofJSON, &anyv)
				proofJSON, _ = json.MarshalIndent(anyv, "", "    ")
				proofJSON = append(proofJSON, '\n')
				fault = "proof-json-pretty-printed"
			case 13:
				proofJSON = append(append([]byte{}, proofJSON...), []byte("\n{\"junk\":1}")...)
				fault = "proof-json-with-trailing-data"
			case 1:
				cs, _ := gtier.DecodeJSON(proofJSON)
				i := t.Pick(8)
				cs[i] = new(big.Int).Xor(cs[i], new(big.Int).Lsh(big.NewInt(1), uint(t.Draw(250))))
				proofJSON = renderProof(cs)
				fault = "proof-bit-flipped"
			case 2:
				cs, _ := gtier.DecodeJSON(proofJSON)
				i := t.Pick(7)
				cs[i], cs[i+1] = cs[i+1], cs[i]
				proofJSON = renderProof(cs)
				fault = "proof-coordinates-swapped"
			case 3:
				switch t.Draw(4) {
				case 0:
					proofJSON = nil // the upstream stage failed: nothing on stdin
				case 1:
					proofJSON = []byte(" \n\t\n")[:1+t.Draw(4)]
				default:
					proofJSON = proofJSON[:1+t.Draw(len(proofJSON)-1)]
				}
				fault = "proof-json-truncated"
			case 4:
				hashVal = new(big.Int).Add(pr.hash, big.NewInt(1))
				hashArg = "0x" + hashVal.Text(16)
				fault = "hash-neighbour"
			case 5:
				o := proofs[t.Pick(len(proofs))]
				if o.hash.Cmp(pr.hash) == 0 {
					hashVal = new(big.Int).Sub(pr.hash, big.NewInt(1))
				} else {
					hashVal = o.hash
				}
				hashArg = "0x" + hashVal.Text(16)
				fault = "hash-of-other-batch"
			case 6:
				hashArg, hashParses = []string{"zz", "", "0x", "12ab", "one"}[t.Pick(5)], false
				fault = "hash-not-a-number"
			case 7:
				for _, o := range c.keys {
					if o != vk {
						vk, keysPath = o, o.path
					}
				}
				fault = "keys-of-other-mode"
			case 8:
				mode = []string{"", "verify", "Deletion", "both"}[t.Pick(4)]
				fault = "mode-absent-or-misspelt"
			case 9:
				keysPath = filepath.Join(c.dir, "missing.ps")
				fault = "keys-file-missing"
			case 10:
				hashVal = new(big.Int).Add(pr.hash, oracle.R)
				hashArg = "0x" + hashVal.Text(16)
				fault = "hash-plus-r"
			}
			args := []string{"verify", "--keys-file", keysPath, "--input-hash", hashArg}
			if mode != "" {
				args = append(args, "--mode", mode)
			}
			vc := ops.Cmd{Args: args, Stdin: proofJSON, RandSeed: seed(), Env: []string{"MTB_MODE="}}
			c.maybeSignal(t, &vc, "verify")
			t0 := time.Now()
			r := ops.Run(vc)
			c.noteDuration("verify", vc, time.Since(t0))
			x.S.Eval(1)
			if r.SignalSent {
				x.S.Count("fault:cli/verify/signal-while-running")
			}
			modeOK := mode == rollup.Insertion || mode == rollup.Deletion
			_, statErr := os.Stat(keysPath)
			ref := modeOK && hashParses && statErr == nil && refVerify(vk, hashVal, proofJSON)
			if fault != "none" {
				x.S.Count("fault:cli/verify/" + fault)
			}
			x.S.Seen(fmt.Sprintf("verify/%s/%s/ref%v/exit%d", vk.sys.Key(), fault, ref, r.Exit))
			x.Log.Addf("cli", "verify", "%s fault=%s ref=%v exit=%d", vk.sys.Key(), fault, ref, r.Exit)
			logf("verify keys=%s fault=%s -> exit %d (reference verdict %v)", vk.sys.Key(), fault, r.Exit, ref)
			if r.TimedOut {
				return engine.Violatef("C19/verify-hangs", "%s fault=%s", vk.sys.Key(), fault)
			}
			if ref && r.Exit != 0 && !r.SignalSent {
				short := "all-coordinates-32-bytes"
				if cs, err := gtier.DecodeJSON(proofJSON); err == nil && gtier.ShortCoordinates(cs) > 0 {
					short = "coordinate-shorter-than-32-bytes"
				}
				return engine.Violatef("C19/verify-exit-status-lies/rejects-valid-proof/"+short, "%s fault=%s: reference verdict valid, exit %d: %s", vk.sys.Key(), fault, r.Exit, ops.Tail(r.Stderr, 300))
			}
			if !ref && r.Exit == 0 {
				return engine.Violatef("C19/verify-exit-status-lies/accepts/"+fault, "%s: reference verdict invalid (%s), exit 0", vk.sys.Key(), fault)
			}
		}
	}
	if x.S.WantSample() {
		x.S.Sample(map[string]any{"keys": []string{c.keys[0].sys.Key(), c.keys[1].sys.Key()}, "history": lg})
	}
	return nil
}

func renderProof(cs [8]*big.Int) []byte {
	h := func(v *big.Int) string { return "0x" + v.Text(16) }
	b, _ := json.Marshal(map[string]any{"ar": []string{h(cs[0]), h(cs[1])}, "bs": [][]string{{h(cs[2]), h(cs[3])}, {h(cs[4]), h(cs[5])}}, "krs": []string{h(cs[6]), h(cs[7])}})
	return b
}

var _ = tape.New

// maybeSignal: in one command out of six a SIGINT or SIGTERM reaches the one-shot command at a tape-chosen fraction
// of the time such a command took the last time (a ^C, a supervisor's TERM, a pipeline torn down). The process may
// die of it or finish; what it may not do is report success for something that is not true: the "exit 0 => ..."
// halves of the oracle stay in force, the "must succeed" halves are waived for a command that was signalled.
func (c *C19) maybeSignal(t *tape.Tape, cmd *ops.Cmd, kind string) {
	if !t.Chance(1, 6) {
		return
	}
	d := c.dur[kind]
	if d <= 0 {
		d = 400 * time.Millisecond
	}
	cmd.SignalAfter = time.Duration(1+t.Draw(1000)) * d / 1000
	cmd.Signal = syscall.SIGINT
	if t.Chance(1, 2) {
		cmd.Signal = syscall.SIGTERM
	}
}

func (c *C19) noteDuration(kind string, cmd ops.Cmd, d time.Duration) {
	if cmd.SignalAfter > 0 {
		return
	}
	if c.dur == nil {
		c.dur = map[string]time.Duration{}
	}
	c.dur[kind] = d
}
