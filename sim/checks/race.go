package checks

import (
	"bytes"
	"encoding/json"
	"fmt"
	"os"
	"os/exec"
	"path/filepath"
	"sort"
	"strconv"
	"strings"
	"time"

	"github.com/anishathalye/porcupine"

	"verifsim/engine"
	"verifsim/ops"
	"verifsim/service"
	"verifsim/tape"

	"worldcoin/gnark-mbu/prover"
)

// The uncontrolled companion mode (DESIGN 6.C13): the real server under `go build -race` with
// free-running goroutines. It is outside the deterministic core and labelled as such in
// evidence: a report is a violation, its replay is "re-run the mix".

type raceResp struct {
	Status int    `json:"status"`
	Body   []byte `json:"body"`
	Err    string `json:"err,omitempty"`
}
type raceScrape struct {
	CallNs   int64  `json:"call_ns"`
	ReturnNs int64  `json:"return_ns"`
	Body     []byte `json:"body"`
}
type raceOut struct {
	Rounds  [][]raceResp `json:"rounds"`
	CallNs  [][]int64    `json:"call_ns"`
	RetNs   [][]int64    `json:"return_ns"`
	Scrapes []raceScrape `json:"scrapes"`
}

type raceRun struct {
	crash   string
	reqs    [][]*service.Request
	out     raceOut
	raceLog string
	exit    int
}

func raceBin() string { return os.Getenv("VERIF_RACE_BIN") }

// runRace executes one uncontrolled mix. Machinery trouble panics.
func (c *svc) runRace(x *engine.Ctx, t *tape.Tape, weights [6]int) *raceRun {
	dir, err := ops.Scratch(fmt.Sprintf("race-%s-%d-%d", c.id, os.Getpid(), x.Run))
	if err != nil {
		panic(err)
	}
	defer os.RemoveAll(dir)
	keys := filepath.Join(dir, "keys.ps")
	f, err := os.Create(keys)
	if err != nil {
		panic(err)
	}
	if _, err := c.sys.PS.WriteRawTo(f); err != nil {
		panic(err)
	}
	f.Close()
	// the scenario presupposes that the keys file loads back as the same system (C11 decides that)
	if ps2, err := prover.ReadSystemFromFile(keys); err != nil || ps2.TreeDepth != c.sys.PS.TreeDepth || ps2.BatchSize != c.sys.PS.BatchSize {
		x.S.Count("probe:race_mode_skipped_keys_file_does_not_reload")
		return nil
	}
	gen := &service.Gen{T: t, Sys: c.sys}
	rr := &raceRun{}
	type spec struct {
		Method string `json:"method"`
		Body   []byte `json:"body"`
	}
	var rounds [][]spec
	nr := 2 + t.Draw(2)
	for i := 0; i < nr; i++ {
		n := 3 + t.Draw(3)
		var rs []*service.Request
		var ss []spec
		for j := 0; j < n; j++ {
			var r *service.Request
			if j < 2 {
				r = gen.Valid()
			} else {
				r = pickRequest(t, gen, weights)
			}
			rs = append(rs, r)
			ss = append(ss, spec{r.Method, r.Body})
		}
		rr.reqs = append(rr.reqs, rs)
		rounds = append(rounds, ss)
	}
	// bursts of cheap requests (no proofs): volume is what makes short windows observable
	nb := 6 + t.Draw(4)
	for i := 0; i < nb; i++ {
		var rs []*service.Request
		var ss []spec
		for j := 0; j < 24; j++ {
			r := gen.Cheap()
			rs = append(rs, r)
			ss = append(ss, spec{r.Method, r.Body})
		}
		rr.reqs = append(rr.reqs, rs)
		rounds = append(rounds, ss)
	}
	rb, _ := json.Marshal(rounds)
	reqPath, outPath, logPath := filepath.Join(dir, "requests.json"), filepath.Join(dir, "out.json"), filepath.Join(dir, "race")
	os.WriteFile(reqPath, rb, 0o644)
	base := 23000 + int((x.Seed*613+x.Run*7+uint64(os.Getpid()))%15000)
	pp := freePort(base)
	mp := freePort(pp + 1)
	cmd := exec.Command(raceBin(), "-keys", keys, "-mode", c.sys.Mode, "-requests", reqPath, "-out", outPath,
		"-prover-address", "127.0.0.1:"+strconv.Itoa(pp), "-metrics-address", "127.0.0.1:"+strconv.Itoa(mp))
	cmd.Env = append(os.Environ(), "GORACE=halt_on_error=0 exitcode=66 log_path="+logPath)
	var eb bytes.Buffer
	cmd.Stdout, cmd.Stderr = &eb, &eb
	done := make(chan error, 1)
	if err := cmd.Start(); err != nil {
		panic(err)
	}
	go func() { done <- cmd.Wait() }()
	select {
	case err := <-done:
		if err != nil {
			if ee, ok := err.(*exec.ExitError); ok {
				rr.exit = ee.ExitCode()
			} else {
				panic(err)
			}
		}
	case <-time.After(15 * time.Minute):
		cmd.Process.Kill()
		panic("racecheck did not finish within 15 minutes")
	}
	// the detector writes <log_path>.<pid>
	if m, _ := filepath.Glob(logPath + ".*"); len(m) > 0 {
		for _, p := range m {
			b, _ := os.ReadFile(p)
			rr.raceLog += string(b)
		}
	}
	if rr.exit != 0 && rr.exit != 66 {
		// the server process died: a Go runtime fatal error (e.g. concurrent map writes) or a panic in a
		// repository goroutine is a finding of the uncontrolled mode; anything else is machinery trouble
		out := eb.String()
		if i := strings.Index(out, "fatal error: "); i >= 0 && strings.Contains(out, "worldcoin/gnark-mbu/") {
			rr.crash = firstLine(out[i:])
			return rr
		}
		if i := strings.Index(out, "panic: "); i >= 0 && strings.Contains(out[i:], "worldcoin/gnark-mbu/") {
			rr.crash = firstLine(out[i:])
			return rr
		}
		panic(fmt.Sprintf("racecheck exited with %d: %s", rr.exit, ops.Tail(eb.Bytes(), 1500)))
	}
	ob, err := os.ReadFile(outPath)
	if err != nil {
		panic(fmt.Sprintf("racecheck wrote no output (exit %d): %s", rr.exit, ops.Tail(eb.Bytes(), 800)))
	}
	if err := json.Unmarshal(ob, &rr.out); err != nil {
		panic(err)
	}
	for i, round := range rr.reqs {
		for j, r := range round {
			rec := rr.out.Rounds[i][j]
			if rec.Err == "" {
				r.Resp = &service.Response{Status: rec.Status, Body: rec.Body}
			}
		}
	}
	return rr
}

// raceReport extracts the first data-race report and whether it names repository code.
func raceReport(log string) (first string, frames []string) {
	i := strings.Index(log, "WARNING: DATA RACE")
	if i < 0 {
		return "", nil
	}
	rep := log[i:]
	if j := strings.Index(rep, "=================="); j > 0 {
		rep = rep[:j]
	}
	for _, ln := range strings.Split(rep, "\n") {
		ln = strings.TrimSpace(ln)
		if strings.HasPrefix(ln, "worldcoin/gnark-mbu/") || strings.HasPrefix(ln, "github.com/") {
			if k := strings.LastIndexByte(ln, '('); k > 0 {
				ln = ln[:k]
			}
			frames = append(frames, ln)
		}
	}
	if len(rep) > 1800 {
		rep = rep[:1800]
	}
	return rep, frames
}

// raceScenarioC13: detector verdict + per-request oracle under uncontrolled timing.
func (c *C13) raceScenario(x *engine.Ctx) *engine.Violation {
	v := c.raceScenario0(x)
	if v != nil {
		v.Uncontrolled = true
	}
	return v
}

func (c *C13) raceScenario0(x *engine.Ctx) *engine.Violation {
	if raceBin() == "" {
		panic("VERIF_RACE_BIN not set")
	}
	rr := c.runRace(x, x.T, [6]int{3, 2, 1, 2, 0, 1})
	if rr == nil {
		return nil
	}
	x.S.Count("fault:uncontrolled/free-running-concurrent-requests-under-race-detector")
	if rr.crash != "" {
		return engine.Violatef("C13/race-mode/server-process-crashed", "uncontrolled mix: the server process died under concurrent requests: %s", rr.crash)
	}
	n := 0
	for _, round := range rr.reqs {
		n += len(round)
	}
	x.S.Eval(int64(n))
	x.Log.Addf("race", "mix", "rounds=%d requests=%d", len(rr.reqs), n)
	if rep, frames := raceReport(rr.raceLog); rep != "" {
		where := "library"
		for _, f := range frames {
			if strings.HasPrefix(f, "worldcoin/gnark-mbu/") {
				where = sanitizeFrame(f)
				break
			}
		}
		return engine.Violatef("C13/data-race-reported-by-race-detector/"+where, "uncontrolled -race mix (%d rounds, %d requests): %s", len(rr.reqs), n, rep)
	}
	for _, round := range rr.reqs {
		for _, r := range round {
			if r.Resp == nil {
				return engine.Violatef("C13/race-mode/request-without-response", "request %s %s got no response in the uncontrolled mix", r.Method, r.Kind)
			}
			if cls, detail := service.Judge(c.sys, r); cls != "" {
				return engine.Violatef("C13/race-mode/response-not-determined-by-own-request/"+cls, "%s [uncontrolled -race mix]", detail)
			}
		}
	}
	if x.S.WantSample() {
		x.S.Sample(map[string]any{"mode": "UNCONTROLLED (go build -race, free-running goroutines, real loopback sockets)", "rounds": len(rr.reqs), "requests": n, "race_reports": 0})
	}
	return nil
}

func sanitizeFrame(f string) string {
	f = strings.TrimPrefix(f, "worldcoin/gnark-mbu/")
	var b strings.Builder
	for _, r := range f {
		if r >= 'a' && r <= 'z' || r >= 'A' && r <= 'Z' || r >= '0' && r <= '9' || r == '.' || r == '_' {
			b.WriteRune(r)
		} else {
			b.WriteByte('_')
		}
	}
	return b.String()
}

// ---------------------------------------------------------------------------------------
// porcupine: scrape history of the uncontrolled mix against a counter model (C20)

type ctrIn struct {
	inc  string         // "method/code" incremented by a completed request ("" for a read)
	read map[string]int // totals observed by a scrape
}

func counterModel() porcupine.Model {
	return porcupine.Model{
		Init: func() interface{} { return "" },
		Step: func(state, input, output interface{}) (bool, interface{}) {
			st := decodeCounts(state.(string))
			in := input.(ctrIn)
			if in.inc != "" {
				st[in.inc]++
				return true, encodeCounts(st)
			}
			for k, v := range in.read {
				if st[k] != v {
					return false, state
				}
			}
			for k, v := range st {
				if in.read[k] != v {
					return false, state
				}
			}
			return true, state
		},
		Equal: func(a, b interface{}) bool { return a.(string) == b.(string) },
	}
}

func encodeCounts(m map[string]int) string {
	ks := make([]string, 0, len(m))
	for k, v := range m {
		if v != 0 {
			ks = append(ks, k+"="+strconv.Itoa(v))
		}
	}
	sort.Strings(ks)
	return strings.Join(ks, ",")
}

func decodeCounts(s string) map[string]int {
	m := map[string]int{}
	if s == "" {
		return m
	}
	for _, kv := range strings.Split(s, ",") {
		k, v, _ := strings.Cut(kv, "=")
		n, _ := strconv.Atoi(v)
		m[k] = n
	}
	return m
}

func (c *C20) raceScenario(x *engine.Ctx) *engine.Violation {
	v := c.raceScenario0(x)
	if v != nil {
		v.Uncontrolled = true
	}
	return v
}

func (c *C20) raceScenario0(x *engine.Ctx) *engine.Violation {
	if raceBin() == "" {
		panic("VERIF_RACE_BIN not set")
	}
	rr := c.runRace(x, x.T, [6]int{2, 2, 1, 3, 1, 4})
	if rr == nil {
		return nil
	}
	x.S.Count("fault:uncontrolled/free-running-concurrent-requests-with-overlapping-scrapes")
	if rr.crash != "" {
		return nil // a crash under concurrency is C13's finding, not a metrics one
	}
	var ops []porcupine.Operation
	id := 0
	tally := map[string]int{}
	for i, round := range rr.reqs {
		for j, r := range round {
			if r.Resp == nil {
				return engine.Violatef("C20/race-mode/request-without-response", "request %s %s got no response", r.Method, r.Kind)
			}
			k := service.MethodLabel(r.Method) + "/" + strconv.Itoa(r.Resp.Status)
			tally[k]++
			ops = append(ops, porcupine.Operation{ClientId: id, Input: ctrIn{inc: k}, Call: rr.out.CallNs[i][j], Output: nil, Return: rr.out.RetNs[i][j]})
			id++
		}
	}
	// keep the history tractable: the final scrape plus a spread of overlapping ones
	scr := rr.out.Scrapes
	if len(scr) > 24 {
		step := len(scr) / 23
		var keep []raceScrape
		for i := 0; i < len(scr)-1; i += step {
			keep = append(keep, scr[i])
		}
		scr = append(keep, scr[len(scr)-1])
	}
	for _, s := range scr {
		tot, _, _ := service.ParseMetrics(s.Body)
		read := map[string]int{}
		for k, v := range tot {
			if v != 0 {
				read[k] = int(v)
			}
		}
		ops = append(ops, porcupine.Operation{ClientId: id, Input: ctrIn{read: read}, Call: s.CallNs, Output: nil, Return: s.ReturnNs})
		id++
	}
	x.S.Eval(int64(len(scr)))
	res := porcupine.CheckOperationsTimeout(counterModel(), ops, 30*time.Second)
	x.Log.Addf("race", "porcupine", "ops=%d", len(ops))
	switch res {
	case porcupine.Illegal:
		return engine.Violatef("C20/race-mode/scrape-history-not-linearizable-against-counter-model", "uncontrolled mix: %d requests, %d scrapes: no order of increments (each inside its request's interval) explains the observed totals; final tally %v", id-len(scr), len(scr), tally)
	case porcupine.Unknown:
		x.S.Count("porcupine_inconclusive")
	default:
		x.S.Count("probe:porcupine_history_linearizable")
	}
	// final scrape: exact conservation and idle gauge
	last := rr.out.Scrapes[len(rr.out.Scrapes)-1]
	tot, inflight, has := service.ParseMetrics(last.Body)
	for k, want := range tally {
		if int(tot[k]) != want {
			return engine.Violatef("C20/race-mode/final-total-differs-from-responses-sent", "%s reported %v, clients received %d", k, tot[k], want)
		}
	}
	if !has || inflight != 0 {
		return engine.Violatef("C20/race-mode/in-flight-gauge-not-zero-after-completion", "gauge present=%v value=%v", has, inflight)
	}
	if x.S.WantSample() {
		x.S.Sample(map[string]any{"mode": "UNCONTROLLED (free-running goroutines, real loopback sockets); scrape history checked with porcupine against a counter model", "requests": id - len(scr), "scrapes_checked": len(scr), "final_tally": tally})
	}
	return nil
}
