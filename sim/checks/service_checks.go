package checks

import (
	"bytes"
	"fmt"
	"runtime"
	"sort"
	"strings"
	"time"

	"verifsim/engine"
	"verifsim/gtier"
	"verifsim/rollup"
	"verifsim/service"
)

// svc is the shared World-S scaffolding: one real proving system per worker process (keys
// from the seeded stream), and the bubble driver.
type svc struct {
	base
	sys  *gtier.System
	sysW int
}

func (c *svc) Init(tier string, worker, nworkers int, seed uint64) error {
	if c.sys != nil && c.sysW == worker {
		return nil
	}
	mode := rollup.Insertion
	if worker%2 == 1 {
		mode = rollup.Deletion
	}
	depth, batch := 2+worker%2, 1+(worker/2)%2
	s, err := gtier.Setup(mode, depth, batch, 0)
	if err != nil {
		return err
	}
	c.sys, c.sysW = s, worker
	return nil
}

func (c *svc) Real() []string {
	return []string{"server.Run, RunningJob (RequestStop/AwaitStop), SpawnJob/CombineJobs, proveHandler (instrumented copy of the current tree: yields before every statement)", "server/wrapped_http mux with Prometheus + dd-trace middleware", "prover.ProveInsertion/ProveDeletion, parameter and proof JSON codecs, Groth16 backend", "net/http server (Serve, conn state machine, Shutdown), promhttp, zerolog"}
}
func (c *svc) Simulated() []string {
	return []string{"TCP listener and connections (simnet: bind semantics, fragmented delivery, half-close, reset)", "choice of which repository goroutine proceeds (tape-driven scheduler at inserted yield points; library code between two yields is atomic)", "clock (testing/synctest fake clock)", "crypto/rand (seeded)", "HTTP clients and the operator (scheduled state machines)"}
}
func (c *svc) Assumptions() []string {
	return []string{"the code under test is /repo's working tree plus mechanically inserted no-op yield calls and the ListenAndServe seam (reproduces net/http's own pre-check, listen, Serve steps over simnet)", "library code between two repository statements runs as one atomic step"}
}

// runWorld executes one configured world inside a bubble and reports harness trouble as a
// panic (machinery error), goroutine leaks through the returned error.
// drawTimeJumps: in a third of the runs the fake clock jumps once or twice while work is in progress
// (a slow proof, a slow client): 2 s, 30 s or 5 min. Nothing in the property allows a timeout to cut a
// request short, so the oracles stay the same.
func drawTimeJumps(x *engine.Ctx, w *service.World) {
	t := x.T
	if !t.Chance(1, 3) {
		return
	}
	n := 1 + t.Draw(2)
	for i := 0; i < n; i++ {
		d := []time.Duration{2 * time.Second, 30 * time.Second, 5 * time.Minute}[t.Pick(3)]
		w.TimeJumps = append(w.TimeJumps, service.TimeJump{Step: 60 + t.Draw(500), D: d})
	}
}

func runWorld(x *engine.Ctx, sim *service.Sim, w *service.World, mode string) error {
	drawTimeJumps(x, w)
	// swarm knob: a third of the runs execute on a single P, so that P-local runtime state
	// (sync.Pool private slots, per-P caches) is shared between the tasks the scheduler interleaves
	if x.T.Chance(1, 3) {
		old := runtime.GOMAXPROCS(1)
		defer runtime.GOMAXPROCS(old)
		x.S.Count("runs_on_a_single_P")
	}
	err := sim.RunBubble(func() { w.Run(mode) })
	if len(sim.Panics) > 0 {
		panic("scheduler body panicked: " + sim.Panics[0])
	}
	return err
}

func traceSample(x *engine.Ctx, sim *service.Sim, w *service.World, extra map[string]any) {
	if !x.S.WantSample() {
		return
	}
	var reqs []string
	for _, r := range w.Requests() {
		st := "none"
		if r.Resp != nil {
			st = fmt.Sprintf("%d %s", r.Resp.Status, service.ErrorCode(r.Resp.Body))
		}
		reqs = append(reqs, fmt.Sprintf("#%d %s %s -> %s", r.ID, r.Method, r.Kind, st))
	}
	m := map[string]any{"strategy": sim.StrategyName(), "steps": sim.Step, "requests": reqs, "max_tasks_enabled_at_once": sim.MaxParallel}
	for k, v := range extra {
		m[k] = v
	}
	x.S.Sample(m)
}

func noteSwitches(x *engine.Ctx, sim *service.Sim) {
	ks := make([]string, 0, len(sim.Switches))
	for k := range sim.Switches {
		ks = append(ks, k)
	}
	sort.Strings(ks)
	for _, k := range ks {
		x.S.Seen("switch:" + k)
	}
	if sim.MaxParallel >= 2 {
		x.S.Count("probe:runs_with_two_or_more_tasks_enabled")
	}
}

// ---------------------------------------------------------------------------------------

type C14 struct{ svc }

func init() { register(&C14{svc{base: base{id: "C14", level: "fault_enumeration"}, sysW: -1}}) }

func (c *C14) Rule() string {
	return "one run = up to 3 start/stop cycles of the real server.Run on the same two simulated addresses with 0..2 prove requests in flight; the stop request is a scheduler action placed at a chosen scheduler step (bare start/stop: runs 0..1199 enumerate every stop step 0..119 x starvation victim 0..8 + first-enabled; afterwards and with requests: tape-chosen positions under uniform / sticky / PCT / starve-one scheduling), followed by AwaitStop and an immediate re-bind of both addresses; evaluations = start/stop cycles completed; non-trivial = stop landed while at least two tasks were enabled or a request was in flight; distinct = (stop step bucket, sites at which tasks were parked when stop was requested, strategy); a quarter of the clients reset their connection at a tape-chosen moment after their request was delivered (nothing is owed to them, later stops must still complete)"
}
func (c *C14) Plan(tier string) engine.Plan {
	if tier == "thorough" {
		return engine.Plan{Runs: 2000000, Workers: 8, BudgetSec: 1500, ShrinkSec: 300}
	}
	return engine.Plan{Runs: 2000000, Workers: 8, BudgetSec: 60, ShrinkSec: 60}
}

func (c *C14) Run(x *engine.Ctx) *engine.Violation {
	t := x.T
	if (x.Run >= 1200 && x.Run < 1212) || (x.Run >= 5000 && x.Run%500 < 2) {
		return c.processClause(x) // real process, real sockets, SIGINT (uncontrolled schedule)
	}
	sim := service.NewSim(t, x.Log, x.S)
	w := &service.World{Sim: sim, Sys: c.sys, StopAfterBegun: -1}
	gen := &service.Gen{T: t, Sys: c.sys}
	bare := x.Run < 1200 || t.Chance(1, 2)
	if x.Run < 1200 {
		// enumeration of (stop step, starved task) for the bare start/stop
		w.Cycles = 1
		stop := int(x.Run / 10)
		v := int(x.Run % 10)
		w.StopAt = []int{stop}
		if v == 9 {
			sim.Strategy = service.StratFirst
		} else {
			sim.Strategy = service.StratStarve
			sim.SetVictim(v)
		}
	} else {
		w.Cycles = 1 + t.Draw(3)
		sim.Configure([]int{service.StratUniform, service.StratSticky, service.StratPCT, service.StratStarve})
		span := 130
		if !bare {
			span = 500
		}
		for i := 0; i < w.Cycles; i++ {
			if t.Chance(1, 5) {
				w.StopAt = append(w.StopAt, -1)
			} else {
				w.StopAt = append(w.StopAt, t.Draw(span))
			}
		}
	}
	if !bare {
		if t.Chance(2, 3) {
			w.StopAfterBegun = t.Draw(260) // while the first request is inside its handler
		}
		n := 1 + t.Draw(2)
		for i := 0; i < n; i++ {
			var r *service.Request
			switch t.Weighted(5, 1, 1) {
			case 0:
				r = gen.Valid()
			case 1:
				r = gen.InvalidBatch()
			default:
				r = gen.Malformed()
			}
			cyc := 0
			if w.Cycles > 1 && w.StopAfterBegun < 0 {
				cyc = t.Draw(w.Cycles) // requests also in later start/stop cycles on the same addresses
			}
			cc := &service.ClientConn{Addr: service.ProverAddr, Reqs: []*service.Request{r}, Frag: t.Draw(4), StartStep: 60 + t.Draw(120), Cycle: cyc}
			if i == 0 && w.StopAfterBegun >= 0 && t.Chance(1, 4) {
				// a slow uploader across the stop: the request is accepted (headers in, handler reading the body),
				// the client stalls, the stop is requested while everything is quiet, 6..12 s of simulated time pass
				// with Shutdown polling, then the rest of the body arrives. The statement promises this request its
				// full response however long its progress takes.
				if head := bytes.Index(r.Raw, []byte("\r\n\r\n")) + 4; head >= 4 && len(r.Raw)-head >= 2 {
					cc.FreezeAt = head + t.Draw(len(r.Raw)-head-1)
					w.ThawAfter = 6 + t.Draw(7)
					sim.MaxSteps += 800
					x.S.Count("fault:net/slow-uploader-stalled-across-the-stop")
				}
			} else if t.Chance(1, 4) {
				// history: a client that gives up (resets its connection) after its request was delivered, at a
				// tape-chosen moment before the response - typically while the handler is parked mid-proof.
				// Nothing is owed to that client any more; every later stop must still complete.
				cc.LeaveBeforeResponse = true
				x.S.Count("fault:net/client-abandons-accepted-request")
			}
			w.AddConn(cc)
		}
	}
	if !bare && w.StopAfterBegun >= 0 && w.Cycles == 1 && t.Chance(1, 3) {
		// the metrics listener serves requests too: a scrape whose (legal) small request body is still being
		// uploaded when the stop is requested - net/http holds the response back until the body is in, so the
		// request is accepted and unanswered across the stop; it is owed its full response like any other
		sr := service.MetricsScrape()
		body := []byte(`{"scraper":"liveness-probe","interval":"15s"}`)
		sr.Body = body
		sr.Raw = service.RawRequest("GET", "/metrics", body, service.FrameCL)
		sr.Kind = "scrape/slow-body-across-the-stop"
		if head := bytes.Index(sr.Raw, []byte("\r\n\r\n")) + 4; head >= 4 {
			mc := &service.ClientConn{Addr: service.MetricsAddr, Reqs: []*service.Request{sr}, StartStep: 56 + t.Draw(30), FreezeAt: head + 1 + t.Draw(len(body)-2)}
			if w.ThawAfter == 0 {
				w.ThawAfter = 2 + t.Draw(6)
			}
			sim.MaxSteps += 800
			w.AddConn(mc)
			x.S.Count("fault:net/slow-metrics-scrape-stalled-across-the-stop")
		}
	}
	leak := runWorld(x, sim, w, c.sys.Mode)
	op := w.Op()
	x.S.Eval(int64(op.CyclesDone))
	x.S.Count("runs_strategy_" + sim.StrategyName())
	noteSwitches(x, sim)
	inflight := 0
	for _, cc := range w.Conns {
		for _, d := range cc.DeliveredAtStop {
			if d >= 0 && cc.HeadersDelivered(0, d) && (cc.Reqs[0].RespAtStep == 0 || cc.Reqs[0].RespAtStep > op.StopStep) {
				inflight++
			}
		}
	}
	if inflight > 0 {
		x.S.Count("probe:stop_with_request_in_flight")
	}
	for _, h := range op.HandlersAtStop {
		if strings.Contains(h, "bound->serve") {
			x.S.Count("probe:stop_landed_between_bind_and_serve")
		}
		if strings.Contains(h, "serve_mux.go") {
			x.S.Count("probe:stop_while_handler_parked")
		}
	}
	if len(op.HandlersAtStop) >= 2 || inflight > 0 {
		x.S.Seen(fmt.Sprintf("stop@%d/%s/%s", op.StopStep/10, strings.Join(op.HandlersAtStop, ","), sim.StrategyName()))
	}
	traceSample(x, sim, w, map[string]any{"cycles": op.CyclesDone, "stop_steps": w.StopAt, "tasks_parked_at_last_stop": op.HandlersAtStop, "rebind_errors": op.RebindErr})

	for i, re := range op.RebindErr {
		if re != "" {
			which := "prover-address"
			if !strings.Contains(re, service.ProverAddr+":") {
				which = "metrics-address"
			}
			return engine.Violatef("C14/address-still-bound-when-await-stop-returns/"+which, "cycle %d: AwaitStop returned but re-binding fails: %s (bound: %s); tasks parked at stop: %v", i, re, op.BoundAfter[i], op.HandlersAtStop)
		}
	}
	if w.Stuck || !op.Finished {
		return engine.Violatef("C14/stop-or-await-does-not-return", "%s after %d steps (cycles completed %d of %d); parked: %v", w.StuckWhy, sim.Step, op.CyclesDone, w.Cycles, sim.ParkedAt())
	}
	for _, cc := range w.Conns {
		r := cc.Reqs[0]
		accepted := false
		for _, d := range cc.DeliveredAtStop {
			if d >= 0 && cc.HeadersDelivered(0, d) {
				accepted = true
			}
		}
		if r.Resp == nil && !accepted {
			continue // arrived after the listener closed, or never taken up: may legally be refused or dropped
		}
		// completeness and status are C14's business; whether a 200 body is a valid proof is C09's and C13's
		if cls, detail := service.JudgeDelivery(c.sys, r); cls != "" {
			if accepted {
				return engine.Violatef("C14/accepted-request-not-completed/"+cls, "%s (request was in the handler or already answered when stop was requested at step %d)", detail, op.StopStep)
			}
			return engine.Violatef("C14/response-wrong-around-shutdown/"+cls, "%s", detail)
		}
	}
	if leak != nil {
		return engine.Violatef("C14/goroutines-left-blocked-after-shutdown", "%v", leak)
	}
	return nil
}
