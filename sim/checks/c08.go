package checks

import (
	"fmt"
	"math/big"
	"strconv"
	"strings"

	"verifsim/engine"
	"verifsim/gtier"
	"verifsim/ops"
	"verifsim/oracle"
	"verifsim/rollup"
	"verifsim/service"
	"verifsim/tape"

	"worldcoin/gnark-mbu/poseidon_tree"
	"worldcoin/gnark-mbu/prover"
)

// C08: the honest sequencer (real off-chain tree, real ComputeInputHash* helpers) against the
// contract's own packing and against the real circuit, over histories that are steered
// ("grind") into roots with leading zero bytes.
type C08 struct {
	base
	ins, del *rollup.Circuit
	poolW    int
	dummy    map[string]*gtier.System
}

func init() { register(&C08{base: base{id: "C08", level: "exploration"}, poolW: -1}) }

func (c *C08) Rule() string {
	return "one run = one sequencer history of 3..8 honest batches (insertions and deletions, incl. padding slots) built with the real PoseidonTree and hashed with the real ComputeInputHashInsertion/Deletion; the sequencer grinds commitments (about 48 Poseidon evaluations) so that pre- and/or post-roots get >=1 leading zero byte; each batch's helper hash is compared with the contract model's Keccak of the canonical packing and the batch is evaluated on the real compiled circuit with the helper's hash; evaluations = batches checked; non-trivial = batch with at least one packed value shorter than 32 bytes or an extreme index; distinct = (mode, depth, batch, short-field pattern, index class); every sixth run is a World L run: 2..5 caller tasks hash their own parameter sets with the helpers, interleaved by the tape at every statement of the instrumented library, each result compared with the contract packing of that caller's own parameters; a quarter of the insertion batches are ground into a Keccak digest with a leading zero byte, and those (plus one batch in twelve) are also proved through the repository's Prove* on DummySetup keys"
}
func (c *C08) Assumptions() []string {
	return []string{"on-chain packing taken from the property text: uint32 BE indices, 32-byte BE roots and commitments, Keccak-256, compared as field elements (mod r)"}
}
func (c *C08) Real() []string {
	return []string{"prover.ComputeInputHashInsertion / ComputeInputHashDeletion", "poseidon_tree.PoseidonTree (sequencer)", "compiled insertion and deletion R1CS + gnark solver"}
}
func (c *C08) Simulated() []string {
	return []string{"contract packing + Keccak (x/crypto) reference", "sequencer history incl. grinding (seeded)"}
}
func (c *C08) Plan(tier string) engine.Plan {
	if tier == "thorough" {
		return engine.Plan{Runs: 100000, Workers: 8, BudgetSec: 900, ShrinkSec: 120}
	}
	return engine.Plan{Runs: 100000, Workers: 8, BudgetSec: 50, ShrinkSec: 40}
}

func (c *C08) Init(tier string, worker, nworkers int, seed uint64) error {
	if c.ins != nil && c.poolW == worker {
		return nil
	}
	t := tape.New(seed^0xC08, uint64(worker)+77)
	depth := 2 + t.Draw(4)
	if worker%4 == 3 {
		depth = 10 + t.Draw(22)
	}
	bi, bd := 1+t.Draw(3), 1+t.Draw(3)
	for (1 << uint(depth)) < 2*bi+2 {
		depth++
	}
	var err error
	if c.ins, err = rollup.Compile(rollup.Insertion, depth, bi); err != nil {
		return err
	}
	dd := depth
	if dd > 31 {
		dd = 31
	}
	if c.del, err = rollup.Compile(rollup.Deletion, dd, bd); err != nil {
		return err
	}
	c.poolW = worker
	return nil
}

func shortBytes(v *big.Int) int { return 32 - (v.BitLen()+7)/8 }

// grind searches a value for leaf idx such that the root after writing it has at least one
// leading zero byte; gives up after maxTries.
func grind(t *tape.Tape, m *oracle.Tree, idx uint64, maxTries int) (*big.Int, bool) {
	base := t.BigBelow(oracle.R)
	for i := 0; i < maxTries; i++ {
		v := new(big.Int).Add(base, big.NewInt(int64(i)))
		v.Mod(v, oracle.R)
		if v.Sign() == 0 {
			continue
		}
		c := m.Clone()
		c.Set(idx, v)
		if shortBytes(c.Root()) >= 1 {
			return v, true
		}
	}
	return nil, false
}

// grindDigest searches for a last commitment under which the Keccak digest of the whole packing starts with a
// zero byte (one batch in 256 has such a digest by itself): the helper's hash is then shorter than 32 bytes.
func grindDigest(t *tape.Tape, m *oracle.Tree, start uint32, pre *big.Int, earlier []*big.Int, idx uint64, maxTries int) (*big.Int, bool) {
	base := t.BigBelow(oracle.R)
	for i := 0; i < maxTries; i++ {
		v := new(big.Int).Add(base, big.NewInt(int64(i)))
		v.Mod(v, oracle.R)
		if v.Sign() == 0 {
			continue
		}
		c := m.Clone()
		c.Set(idx, v)
		cs := append(append([]*big.Int{}, earlier...), v)
		if oracle.Keccak256(oracle.InsertionPacking(start, pre, c.Root(), cs))[0] == 0 {
			return v, true
		}
	}
	return nil, false
}

// proverPath: "consequently the emitted parameters are provable" is observed at the repository's own prover entry
// point too (shape validation, whatever checks it makes on the stated hash, witness construction, solver, Groth16
// prover on gnark DummySetup keys for the same compiled system): always when the digest of the packing starts with a
// zero byte, otherwise for one batch in twelve.
func (c *C08) proverPath(x *engine.Ctx, t *tape.Tape, cc *rollup.Circuit, digest []byte, iw *oracle.InsertionWitness, dw *oracle.DeletionWitness) *engine.Violation {
	short := digest[0] == 0
	if short {
		x.S.Count("probe:input_hash_digest_starts_with_zero_byte")
	}
	if !short && !t.Chance(1, 12) {
		return nil
	}
	if c.dummy == nil {
		c.dummy = map[string]*gtier.System{}
	}
	ds := c.dummy[cc.Key()]
	if ds == nil {
		var err error
		if ds, err = gtier.DummySystem(cc.Mode, cc.Depth, cc.Batch, cc.Raw()); err != nil {
			panic("DummySetup: " + err.Error())
		}
		c.dummy[cc.Key()] = ds
	}
	err := ds.ProveErr(iw, dw)
	x.S.Eval(1)
	x.S.Count("prover_path_calls")
	if err != nil {
		cause := "ordinary-digest"
		if short {
			cause = "digest-shorter-than-32-bytes"
		}
		return engine.Violatef("C08/sequencer-parameters-refused-by-prover/"+cause, "%s: the helper's hash equals the contract packing's and the compiled circuit accepts the batch, but Prove%s refuses it: %s (digest 0x%x)", cc.Key(), strings.Title(cc.Mode), firstLine(err.Error()), digest)
	}
	return nil
}

func toBig(xs []big.Int) []*big.Int {
	out := make([]*big.Int, len(xs))
	for i := range xs {
		out[i] = new(big.Int).Set(&xs[i])
	}
	return out
}

// cliGenParams: `gnark-mbu gen-test-params` for an enumerated (mode, depth, batch): the printed
// parameters must describe a valid batch whose input hash is the contract's (hence provable).
func (c *C08) cliGenParams(x *engine.Ctx) *engine.Violation {
	i := int(x.Run)
	mode := rollup.Insertion
	if i%2 == 1 {
		mode = rollup.Deletion
	}
	i /= 2
	batch := 1 + i%6
	depths := []int{1, 2, 3, 4, 5, 6, 7, 8, 9, 10, 11, 12, 13, 14, 15, 16, 18, 20, 22, 24, 26, 28, 30, 31, 32}
	depth := depths[(i/6)%len(depths)]
	if mode == rollup.Deletion && depth > 31 {
		depth = 31
	}
	if mode == rollup.Insertion && (1<<uint(depth)) < batch || mode == rollup.Deletion && (1<<uint(depth)) < 2*batch {
		depth += 4
	}
	r := ops.Run(ops.Cmd{Args: []string{"gen-test-params", "--mode", mode, "--tree-depth", strconv.Itoa(depth), "--batch-size", strconv.Itoa(batch)}})
	x.S.Eval(1)
	key := fmt.Sprintf("%s/d%d/b%d", mode, depth, batch)
	body, one := oneJSONLine(r.Stdout)
	x.Log.Addf("cli", "gen-test-params", "%s exit=%d", key, r.Exit)
	if r.Exit != 0 || !one {
		return engine.Violatef("C08/gen-test-params/fails", "%s: %s", key, ops.Describe(r))
	}
	pre, post := genParamsRoots(mode, depth, batch)
	sp, sq := shortBytes(pre), shortBytes(post)
	c.probe(x, sp, sq, 0)
	if sp+sq > 0 {
		x.S.Count("probe:cli_gen_test_params_with_short_root")
	}
	x.S.Seen(fmt.Sprintf("cli/%s/pre%d/post%d", key, sp, sq))
	var valid bool
	var why string
	if mode == rollup.Insertion {
		w, err := service.ParseInsertionDoc(body)
		if err != nil {
			return engine.Violatef("C08/gen-test-params/output-not-a-parameter-document", "%s: %v", key, err)
		}
		valid, why = oracle.InsertionValid(depth, w)
	} else {
		w, err := service.ParseDeletionDoc(body)
		if err != nil {
			return engine.Violatef("C08/gen-test-params/output-not-a-parameter-document", "%s: %v", key, err)
		}
		valid, why = oracle.DeletionValid(depth, w)
	}
	if !valid {
		return engine.Violatef("C08/gen-test-params/output-not-provable/"+why+"/"+shortCause(sp, sq), "%s: `gnark-mbu gen-test-params` printed parameters that do not describe a provable batch (%s); pre-root %d bytes short, post-root %d bytes short", key, why, sp, sq)
	}
	return nil
}

func (c *C08) Run(x *engine.Ctx) *engine.Violation {
	t := x.T
	if x.Run < 300 && ops.Bin() != "" {
		return c.cliGenParams(x) // enumerated CLI sweep: 2 modes x 6 batch sizes x 25 depths (1..32)
	}
	if x.Run%6 == 5 {
		return c.concurrentCallers(x) // World L: interleaved callers of the helpers, each judged by its own packing
	}
	if t.Chance(1, 3) {
		return c.helperOnly(x) // the helpers alone over arbitrary in-range parameter sets (no circuit needed)
	}
	x.S.Touch("probe:pre_root_short", "probe:post_root_short", "probe:both_roots_short", "probe:commitment_short")
	mode := rollup.Insertion
	if t.Chance(1, 2) {
		mode = rollup.Deletion
	}
	cc := c.ins
	if mode == rollup.Deletion {
		cc = c.del
	}
	depth, batch := cc.Depth, cc.Batch
	size := uint64(1) << uint(depth)
	seq := poseidon_tree.NewTree(depth)
	model := oracle.NewTree(depth)
	next := uint64(0)
	write := func(ix uint64, v *big.Int) []big.Int {
		model.Set(ix, v)
		return seq.Update(int(ix), *v)
	}
	// pre-populate for deletions
	if mode == rollup.Deletion {
		k := t.Range(batch, 3*batch+2)
		for i := 0; i < k && next < size; i++ {
			write(next, rollup.RandomCommitment(t))
			next++
		}
	}
	var trace []string
	n := t.Range(3, 8)
	for b := 0; b < n; b++ {
		wantShortPost := t.Chance(1, 2)
		wantShortDigest := t.Chance(1, 4)
		if mode == rollup.Insertion {
			if next+uint64(batch) > size {
				break
			}
			p := prover.InsertionParameters{StartIndex: uint32(next)}
			p.PreRoot = seq.Root()
			comms := make([]*big.Int, batch)
			for i := 0; i < batch; i++ {
				comms[i] = rollup.RandomCommitment(t)
				if i == batch-1 && wantShortDigest {
					if g, ok := grindDigest(t, model, uint32(next), &p.PreRoot, comms[:i], next+uint64(i), 400); ok {
						comms[i] = g
						x.S.Count("fault:grind-input-hash-digest-into-leading-zero-byte")
					}
				} else if i == batch-1 && wantShortPost {
					if g, ok := grind(t, model, next+uint64(i), 400); ok {
						comms[i] = g
						x.S.Count("fault:grind-post-root-into-leading-zero-byte")
					}
				}
				p.IdComms = append(p.IdComms, *comms[i])
				p.MerkleProofs = append(p.MerkleProofs, write(next+uint64(i), comms[i]))
			}
			p.PostRoot = seq.Root()
			if err := p.ComputeInputHashInsertion(); err != nil {
				return engine.Violatef("C08/helper=insertion/error", "ComputeInputHashInsertion: %v", err)
			}
			x.S.Eval(1)
			want := oracle.InsertionHash(p.StartIndex, &p.PreRoot, &p.PostRoot, comms)
			got := oracle.Mod(&p.InputHash)
			sp, sq := shortBytes(&p.PreRoot), shortBytes(&p.PostRoot)
			sc := 0
			for _, cm := range comms {
				if shortBytes(cm) > 0 {
					sc++
				}
			}
			c.probe(x, sp, sq, sc)
			x.Log.Addf("seq", "insertion", "d=%d b=%d start=%d preShort=%d postShort=%d ok=%v", depth, batch, next, sp, sq, got.Cmp(want) == 0)
			trace = append(trace, fmt.Sprintf("insertion start=%d pre=0x%s post=0x%s helper=0x%s contract=0x%s", next, p.PreRoot.Text(16), p.PostRoot.Text(16), got.Text(16), want.Text(16)))
			if sp+sq+sc > 0 || next == 0 {
				x.S.Seen(fmt.Sprintf("ins/d%d/b%d/pre%d/post%d/comm%d/first=%v", depth, batch, sp, sq, sc, next == 0))
			}
			if got.Cmp(want) != 0 {
				return engine.Violatef("C08/helper=insertion/hash-differs/"+shortCause(sp, sq), "depth %d batch %d start %d: helper %s, contract packing %s (pre-root %d bytes short, post-root %d bytes short)", depth, batch, next, got.Text(16), want.Text(16), sp, sq)
			}
			// the circuit must accept the sequencer's parameters as they are
			w := &oracle.InsertionWitness{InputHash: new(big.Int).Set(&p.InputHash), Start: new(big.Int).SetUint64(uint64(p.StartIndex)), Pre: &p.PreRoot, Post: &p.PostRoot, Comms: comms}
			for i := range p.MerkleProofs {
				w.Paths = append(w.Paths, toBig(p.MerkleProofs[i]))
			}
			if v := cc.Attempt(rollup.AssignInsertion(w), rollup.Honest); !v.Accepted {
				return engine.Violatef("C08/helper=insertion/circuit-rejects-sequencer-parameters", "depth %d batch %d start %d: %s", depth, batch, next, firstLine(v.Err))
			}
			if v := c.proverPath(x, t, cc, oracle.Keccak256(oracle.InsertionPacking(p.StartIndex, &p.PreRoot, &p.PostRoot, comms)), w, nil); v != nil {
				return v
			}
			next += uint64(batch)
		} else {
			p := prover.DeletionParameters{}
			p.PreRoot = seq.Root()
			var occ []uint64
			for k := range model.Leaves {
				occ = append(occ, k)
			}
			sortU64(occ)
			icls := ""
			for i := 0; i < batch; i++ {
				var ix uint64
				switch {
				case len(occ) > 0 && t.Chance(2, 3):
					k := t.Pick(len(occ))
					ix = occ[k]
					occ = append(occ[:k:k], occ[k+1:]...)
					icls += "o"
				case t.Chance(1, 2):
					// padding slot, incl. the extreme 2^32-1 where legal
					ix = size + uint64(t.Draw(int(min64(size, 1<<20))))
					if depth == 31 && t.Chance(1, 2) {
						ix = 0xffffffff
					}
					icls += "p"
				default:
					ix = uint64(t.Draw(int(min64(size, 1<<20))))
					icls += "e"
				}
				p.DeletionIndices = append(p.DeletionIndices, uint32(ix))
				if ix >= size {
					p.IdComms = append(p.IdComms, *big.NewInt(0))
					p.MerkleProofs = append(p.MerkleProofs, make([]big.Int, depth))
					continue
				}
				p.IdComms = append(p.IdComms, *new(big.Int).Set(model.Get(ix)))
				p.MerkleProofs = append(p.MerkleProofs, write(ix, big.NewInt(0)))
			}
			p.PostRoot = seq.Root()
			if err := p.ComputeInputHashDeletion(); err != nil {
				return engine.Violatef("C08/helper=deletion/error", "ComputeInputHashDeletion: %v", err)
			}
			x.S.Eval(1)
			want := oracle.DeletionHash(p.DeletionIndices, &p.PreRoot, &p.PostRoot)
			got := oracle.Mod(&p.InputHash)
			sp, sq := shortBytes(&p.PreRoot), shortBytes(&p.PostRoot)
			c.probe(x, sp, sq, 0)
			x.Log.Addf("seq", "deletion", "d=%d b=%d idx=%v preShort=%d postShort=%d ok=%v", depth, batch, p.DeletionIndices, sp, sq, got.Cmp(want) == 0)
			trace = append(trace, fmt.Sprintf("deletion idx=%v pre=0x%s post=0x%s helper=0x%s contract=0x%s", p.DeletionIndices, p.PreRoot.Text(16), p.PostRoot.Text(16), got.Text(16), want.Text(16)))
			x.S.Seen(fmt.Sprintf("del/d%d/b%d/pre%d/post%d/%s", depth, batch, sp, sq, icls))
			if got.Cmp(want) != 0 {
				return engine.Violatef("C08/helper=deletion/hash-differs/"+shortCause(sp, sq), "depth %d batch %d indices %v: helper %s, contract packing %s (pre-root %d bytes short, post-root %d bytes short)", depth, batch, p.DeletionIndices, got.Text(16), want.Text(16), sp, sq)
			}
			w := &oracle.DeletionWitness{InputHash: new(big.Int).Set(&p.InputHash), Pre: &p.PreRoot, Post: &p.PostRoot}
			for i := range p.DeletionIndices {
				w.Indices = append(w.Indices, new(big.Int).SetUint64(uint64(p.DeletionIndices[i])))
				w.Items = append(w.Items, new(big.Int).Set(&p.IdComms[i]))
				w.Paths = append(w.Paths, toBig(p.MerkleProofs[i]))
			}
			if v := cc.Attempt(rollup.AssignDeletion(w), rollup.Honest); !v.Accepted {
				return engine.Violatef("C08/helper=deletion/circuit-rejects-sequencer-parameters", "depth %d batch %d indices %v: %s", depth, batch, p.DeletionIndices, firstLine(v.Err))
			}
			if v := c.proverPath(x, t, cc, oracle.Keccak256(oracle.DeletionPacking(p.DeletionIndices, &p.PreRoot, &p.PostRoot)), nil, w); v != nil {
				return v
			}
			// refill so that the next batch has something to delete, grinding the refill so the next pre-root is short
			for len(model.Leaves) < batch+1 && next < size {
				v := rollup.RandomCommitment(t)
				if wantShortPost {
					if g, ok := grind(t, model, next, 400); ok {
						v = g
						x.S.Count("fault:grind-pre-root-into-leading-zero-byte")
					}
				}
				write(next, v)
				next++
			}
			if wantShortPost && next < size && shortBytes(model.Root()) == 0 {
				if g, ok := grind(t, model, next, 400); ok {
					write(next, g)
					next++
					x.S.Count("fault:grind-pre-root-into-leading-zero-byte")
				}
			}
		}
	}
	if x.S.WantSample() {
		x.S.Sample(map[string]any{"mode": mode, "depth": depth, "batch": batch, "history": trace})
	}
	return nil
}

func (c *C08) probe(x *engine.Ctx, sp, sq, sc int) {
	if sp > 0 {
		x.S.Count("probe:pre_root_short")
	}
	if sq > 0 {
		x.S.Count("probe:post_root_short")
	}
	if sp > 0 && sq > 0 {
		x.S.Count("probe:both_roots_short")
	}
	if sc > 0 {
		x.S.Count("probe:commitment_short")
	}
}

func shortCause(sp, sq int) string {
	if sp > 0 || sq > 0 {
		return "root-shorter-than-32-bytes"
	}
	return "all-roots-full-width"
}

func min64(a, b uint64) uint64 {
	if a < b {
		return a
	}
	return b
}

func sortU64(a []uint64) {
	for i := 1; i < len(a); i++ {
		for j := i; j > 0 && a[j] < a[j-1]; j-- {
			a[j], a[j-1] = a[j-1], a[j]
		}
	}
}

// helperOnly: ComputeInputHash* over arbitrary in-range parameter sets (any uint32 index, any root and
// commitment below r, batch sizes 1..40) against the contract packing; the call must be idempotent and
// must not modify the parameters.
func (c *C08) helperOnly(x *engine.Ctx) *engine.Violation {
	t := x.T
	val := func() *big.Int {
		switch t.Weighted(6, 2, 1, 1, 1) {
		case 0:
			return t.BigBelow(oracle.R)
		case 1:
			return t.BigBelow(new(big.Int).Lsh(big.NewInt(1), uint(8*(1+t.Draw(31)))))
		case 2:
			return big.NewInt(0)
		case 3:
			return new(big.Int).Sub(oracle.R, big.NewInt(1))
		default:
			return big.NewInt(int64(1 + t.Draw(255)))
		}
	}
	idx := func() uint32 {
		switch t.Weighted(3, 1, 1, 1, 1, 2) {
		case 0:
			return t.U32()
		case 1:
			return 0
		case 2:
			return 0xffffffff
		case 3:
			return 0x80000000 + uint32(t.Draw(3)) - 1
		case 4:
			return uint32([]int{255, 256, 65535, 65536, 1 << 24}[t.Pick(5)])
		default:
			return uint32(t.Draw(1000))
		}
	}
	n := 8 + t.Draw(24)
	for k := 0; k < n; k++ {
		batch := 1 + t.Draw(8)
		if t.Chance(1, 5) {
			batch = 9 + t.Draw(32)
		}
		x.S.Eval(1)
		if t.Chance(1, 2) {
			p := prover.InsertionParameters{StartIndex: idx()}
			p.PreRoot, p.PostRoot = *val(), *val()
			var comms []*big.Int
			for i := 0; i < batch; i++ {
				v := val()
				comms = append(comms, v)
				p.IdComms = append(p.IdComms, *new(big.Int).Set(v))
			}
			pre, post := new(big.Int).Set(&p.PreRoot), new(big.Int).Set(&p.PostRoot)
			if err := p.ComputeInputHashInsertion(); err != nil {
				return engine.Violatef("C08/helper=insertion/error", "%v", err)
			}
			h1 := new(big.Int).Set(&p.InputHash)
			p.ComputeInputHashInsertion()
			want := oracle.InsertionHash(p.StartIndex, pre, post, comms)
			x.Log.Addf("helper", "insertion", "start=%d batch=%d ok=%v", p.StartIndex, batch, oracle.Mod(h1).Cmp(want) == 0)
			x.S.Seen(fmt.Sprintf("helper/ins/start%v/b%d", p.StartIndex >= 1<<31, bucket(batch)))
			if oracle.Mod(h1).Cmp(want) != 0 {
				return engine.Violatef("C08/helper=insertion/hash-differs/"+shortCause(shortBytes(pre), shortBytes(post))+"/arbitrary-parameters", "start index %d, batch %d, pre 0x%s post 0x%s: helper %s, contract packing %s", p.StartIndex, batch, pre.Text(16), post.Text(16), h1.Text(16), want.Text(16))
			}
			if h1.Cmp(&p.InputHash) != 0 {
				return engine.Violatef("C08/helper=insertion/not-idempotent", "start %d batch %d: a second call returns another hash", p.StartIndex, batch)
			}
			if p.PreRoot.Cmp(pre) != 0 || p.PostRoot.Cmp(post) != 0 {
				return engine.Violatef("C08/helper=insertion/modifies-parameters", "roots changed by the call")
			}
			for i := range comms {
				if p.IdComms[i].Cmp(comms[i]) != 0 {
					return engine.Violatef("C08/helper=insertion/modifies-parameters", "commitment %d changed by the call", i)
				}
			}
		} else {
			p := prover.DeletionParameters{}
			p.PreRoot, p.PostRoot = *val(), *val()
			var ix []uint32
			for i := 0; i < batch; i++ {
				v := idx()
				ix = append(ix, v)
				p.DeletionIndices = append(p.DeletionIndices, v)
			}
			pre, post := new(big.Int).Set(&p.PreRoot), new(big.Int).Set(&p.PostRoot)
			if err := p.ComputeInputHashDeletion(); err != nil {
				return engine.Violatef("C08/helper=deletion/error", "%v", err)
			}
			h1 := new(big.Int).Set(&p.InputHash)
			p.ComputeInputHashDeletion()
			want := oracle.DeletionHash(ix, pre, post)
			x.Log.Addf("helper", "deletion", "batch=%d ok=%v", batch, oracle.Mod(h1).Cmp(want) == 0)
			x.S.Seen(fmt.Sprintf("helper/del/b%d", bucket(batch)))
			if oracle.Mod(h1).Cmp(want) != 0 {
				return engine.Violatef("C08/helper=deletion/hash-differs/"+shortCause(shortBytes(pre), shortBytes(post))+"/arbitrary-parameters", "indices %v, pre 0x%s post 0x%s: helper %s, contract packing %s", ix, pre.Text(16), post.Text(16), h1.Text(16), want.Text(16))
			}
			if h1.Cmp(&p.InputHash) != 0 {
				return engine.Violatef("C08/helper=deletion/not-idempotent", "batch %d: a second call returns another hash", batch)
			}
			for i := range ix {
				if p.DeletionIndices[i] != ix[i] {
					return engine.Violatef("C08/helper=deletion/modifies-parameters", "index %d changed by the call", i)
				}
			}
		}
	}
	x.S.Count("probe:helper_only_runs")
	return nil
}
