package checks

import (
	"encoding/binary"
	"fmt"
	"github.com/consensys/gnark/frontend"
	"math/big"
	"strings"

	"verifsim/engine"
	"verifsim/oracle"
	"verifsim/rollup"
	"verifsim/tape"
)

// C03: the public input binds the batch. Every attempt starts from a batch that is valid for
// the Merkle logic; the adversary then attacks only the hash binding.
type C03 struct{ rollupCheck }

func pad32b(v *big.Int) []byte {
	b := make([]byte, 32)
	v.FillBytes(b)
	return b
}

func be32(v uint32) []byte {
	var b [4]byte
	binary.BigEndian.PutUint32(b[:], v)
	return b[:]
}

func reverse(b []byte) []byte {
	o := make([]byte, len(b))
	for i := range b {
		o[len(b)-1-i] = b[i]
	}
	return o
}

// altK returns the ks for which v + k*r still fits in 256 bits.
func altK(v *big.Int) []int {
	var ks []int
	lim := new(big.Int).Lsh(big.NewInt(1), 256)
	for k := 1; k <= 6; k++ {
		a := new(big.Int).Mul(oracle.R, big.NewInt(int64(k)))
		a.Add(a, v)
		if a.Cmp(lim) < 0 {
			ks = append(ks, k)
		}
	}
	return ks
}

func (c *C03) Run(x *engine.Ctx) *engine.Violation {
	t := x.T
	cc := c.pickCircuit(t, "")
	w := rollup.NewWorld(cc.Depth)
	prelude(t, w, cc.Mode == rollup.Deletion)
	var lg []attemptLog
	var earlierHash *big.Int
	n := t.Range(3, 7)
	msgLen := 68 + 32*cc.Batch
	if cc.Mode == rollup.Deletion {
		msgLen = 64 + 4*cc.Batch
	}
	blocks := msgLen/136 + 1
	x.Log.Addf("world", "c03", "%s msg=%dB blocks=%d", cc.Key(), msgLen, blocks)
	for a := 0; a < n; a++ {
		if cc.Mode == rollup.Insertion {
			comms := make([]*big.Int, cc.Batch)
			for i := range comms {
				comms[i] = rollup.RandomCommitment(t)
				if t.Chance(1, 8) {
					// the empty value is a legal commitment (a sequencer pads short batches with it); as a packed
					// 256-bit field it is the one value whose alternative representatives are r, 2r, ... themselves
					comms[i] = big.NewInt(0)
					x.S.Count("probe:batch_with_zero_commitment")
				}
			}
			start, ok := w.FreeStart(t, cc.Batch)
			if !ok {
				w = rollup.NewWorld(cc.Depth)
				start = 0
				if uint64(cc.Batch) > w.Size {
					panic("C03 pool contains an insertion circuit whose batch does not fit its tree")
				}
			}
			hw := rollup.HonestInsertion(w.Model, start, comms)
			if v := c.attackInsertion(x, t, cc, w, hw, earlierHash, blocks, &lg); v != nil {
				return v
			}
			earlierHash = hw.InputHash
			// advance state so that later batches have non-trivial roots
			for i, cm := range comms {
				w.Model.Set(start+uint64(i), oracle.Mod(cm))
				w.Written = append(w.Written, start+uint64(i))
				if start+uint64(i) >= w.Next {
					w.Next = start + uint64(i) + 1
				}
			}
		} else {
			if len(w.Model.Leaves) == 0 {
				w.Populate(t, t.Range(1, 4))
			}
			plan := w.PlanDeletion(t, cc.Batch)
			hw := rollup.HonestDeletion(w.Model, plan.Indices, rollup.GarbageFiller(t, cc.Depth))
			if v := c.attackDeletion(x, t, cc, w, hw, earlierHash, blocks, &lg); v != nil {
				return v
			}
			earlierHash = hw.InputHash
			for _, ix := range plan.Indices {
				if ix < w.Size {
					w.Model.Set(ix, big.NewInt(0))
				}
			}
		}
	}
	if x.S.WantSample() {
		x.S.Sample(map[string]any{"circuit": cc.Key(), "hashed_message_bytes": msgLen, "attempts": lg})
	}
	return nil
}

// bindVerdict evaluates one hash-binding attempt. expectAccept is the oracle's verdict from
// the property text (only the same field element as the contract's hash is accepted).
func (c *C03) bindVerdict(x *engine.Ctx, cc *rollup.Circuit, fault string, blocks int, v rollup.Verdict, expectAccept bool, contractHash *big.Int, lg *[]attemptLog, hints string) *engine.Violation {
	x.S.Eval(1)
	if v.SolverOK != v.EvalOK {
		panic("solver and independent evaluator disagree")
	}
	x.S.Count("fault:" + fault)
	x.S.Seen(fmt.Sprintf("%s/blocks%d/%s/%v/%s", cc.Key(), blocks, fault, expectAccept, hints))
	x.Log.Addf("prover", "bind-attempt", "%s fault=%s hints=%s expect=%v got=%v", cc.Key(), fault, hints, expectAccept, v.Accepted)
	*lg = append(*lg, attemptLog{Op: cc.Mode, Fault: fault, Oracle: verdictStr(expectAccept), Circuit: verdictStr(v.Accepted), Hints: hints})
	if expectAccept && !v.Accepted {
		return engine.Violatef("C03/canonical-hash-rejected/"+fault, "%s fault=%s: the public input equals the contract's hash (same field element) but the circuit rejects: %s", cc.Key(), fault, firstLine(v.Err))
	}
	if !expectAccept && v.Accepted {
		return engine.Violatef("C03/unbound-public-input-accepted/"+fault, "%s fault=%s hints=%s: circuit satisfied although the public input is not the contract's hash of the witnessed batch", cc.Key(), fault, hints)
	}
	if v.Accepted {
		// invariant on every accepting evaluation: the public wire IS the contract's hash
		if len(v.Public) != 1 || v.Public[0].Cmp(contractHash) != 0 {
			return engine.Violatef("C03/accepted-with-public-input-other-than-contract-hash", "%s fault=%s: public wire %v, contract hash %s", cc.Key(), fault, v.Public, contractHash.Text(16))
		}
	}
	return nil
}

func (c *C03) attackInsertion(x *engine.Ctx, t *tape.Tape, cc *rollup.Circuit, w *rollup.World, hw *oracle.InsertionWitness, earlier *big.Int, blocks int, lg *[]attemptLog) *engine.Violation {
	contract := new(big.Int).Set(hw.InputHash)
	start32 := uint32(hw.Start.Uint64())
	pre, post := oracle.Mod(hw.Pre), oracle.Mod(hw.Post)
	comms := make([]*big.Int, len(hw.Comms))
	for i := range comms {
		comms[i] = oracle.Mod(hw.Comms[i])
	}
	try := func(fault string, bw *oracle.InsertionWitness, hs *rollup.HintStrategy, expect bool) *engine.Violation {
		v := cc.Attempt(rollup.AssignInsertion(bw), hs)
		name := "honest"
		if hs != nil {
			name = hs.Name
			if hs.Fired.Load() > 0 {
				x.S.Count("fault:hint-forgery/" + hs.Name)
			}
		}
		return c.bindVerdict(x, cc, fault, blocks, v, expect, contract, lg, name)
	}
	// 0. the honest batch itself must be accepted (so the check cannot pass by rejecting everything)
	if v := try("none", hw, rollup.Honest, true); v != nil {
		return v
	}
	if t.Chance(1, 5) {
		return c.genericHintForgery(x, t, cc, func(p *big.Int) frontend.Circuit {
			b := cloneInsW(hw)
			b.InputHash = new(big.Int).Set(p)
			return rollup.AssignInsertion(b)
		}, contract, blocks, lg)
	}
	switch t.Draw(12) {
	case 0: // same field element, other integer
		b := cloneInsW(hw)
		b.InputHash.Add(b.InputHash, new(big.Int).Mul(oracle.R, big.NewInt(int64(1+t.Draw(4)))))
		return try("public-input-plus-k-r", b, rollup.Honest, true)
	case 1, 2, 3: // alternative 256-bit representative of one packed value + forged bits
		fields := append([]*big.Int{pre, post}, comms...)
		order := t.Pick(len(fields))
		if t.Chance(1, 2) {
			// boundary first: a field that is exactly 0 has the multiples of r themselves as its other representatives
			for i, fv := range fields {
				if fv.Sign() == 0 {
					order = i
				}
			}
		}
		for off := 0; off < len(fields); off++ {
			fv := fields[(order+off)%len(fields)]
			ks := altK(fv)
			if len(ks) == 0 {
				continue
			}
			k := ks[t.Pick(len(ks))]
			if t.Chance(1, 2) {
				k = ks[0] // the nearest representative, v + r: where a strict bound and an inclusive one differ
			}
			alt := new(big.Int).Add(fv, new(big.Int).Mul(oracle.R, big.NewInt(int64(k))))
			sub := func(v *big.Int) *big.Int {
				if v.Cmp(fv) == 0 {
					return alt
				}
				return v
			}
			fc := make([]*big.Int, len(comms))
			for i := range fc {
				fc[i] = sub(comms[i])
			}
			data := append(be32(start32), pad32b(sub(pre))...)
			data = append(data, pad32b(sub(post))...)
			for _, q := range fc {
				data = append(data, pad32b(q)...)
			}
			b := cloneInsW(hw)
			b.InputHash = oracle.HashOfBytes(data)
			x.S.Count("probe:alt_representative_fits_256_bits")
			hs := rollup.AltRep(map[string]int{fv.String(): k}, 256)
			if v := try("alt-representative-v-plus-kr", b, hs, false); v != nil {
				return v
			}
			// and without forged hints (honest bits cannot match the forged hash)
			return try("alt-representative-hash-honest-bits", b, rollup.Honest, false)
		}
		x.S.Count("probe:no_value_with_alt_representative")
		return nil
	case 4: // different commitment, Merkle-consistent, original hash
		i := t.Pick(len(comms))
		c2 := make([]*big.Int, len(comms))
		copy(c2, hw.Comms)
		c2[i] = new(big.Int).Add(comms[i], big.NewInt(1))
		b := rollup.HonestInsertion(w.Model, hw.Start.Uint64(), c2)
		b.InputHash = new(big.Int).Set(contract)
		return try("other-commitment-original-hash", b, rollup.Honest, false)
	case 5: // different start index, Merkle-consistent, original hash
		s2, ok := w.FreeStart(t, cc.Batch)
		if !ok || s2 == hw.Start.Uint64() {
			// aliasing start: same low bits cannot be had inside 32 bits at depth 32; just move by one past written area
			s2 = hw.Start.Uint64() + uint64(cc.Batch)
			if s2+uint64(cc.Batch) > w.Size {
				return nil
			}
			for i := 0; i < cc.Batch; i++ {
				if w.Model.Get(s2+uint64(i)).Sign() != 0 {
					return nil
				}
			}
		}
		b := rollup.HonestInsertion(w.Model, s2, hw.Comms)
		b.InputHash = new(big.Int).Set(contract)
		return try("other-start-index-original-hash", b, rollup.Honest, false)
	case 6: // pre/post swapped in the packing
		data := append(be32(start32), pad32b(post)...)
		data = append(data, pad32b(pre)...)
		for _, q := range comms {
			data = append(data, pad32b(q)...)
		}
		if pre.Cmp(post) == 0 {
			return nil
		}
		b := cloneInsW(hw)
		b.InputHash = oracle.HashOfBytes(data)
		return try("packing-pre-post-swapped", b, rollup.Honest, false)
	case 7: // little-endian fields
		data := append(reverse(be32(start32)), reverse(pad32b(pre))...)
		data = append(data, reverse(pad32b(post))...)
		for _, q := range comms {
			data = append(data, reverse(pad32b(q))...)
		}
		b := cloneInsW(hw)
		b.InputHash = oracle.HashOfBytes(data)
		return try("packing-little-endian", b, rollup.Honest, false)
	case 8: // start index packed as uint256 / uint64
		var data []byte
		if t.Chance(1, 2) {
			data = append(make([]byte, 28), be32(start32)...)
		} else {
			data = append(make([]byte, 4), be32(start32)...)
		}
		data = append(data, pad32b(pre)...)
		data = append(data, pad32b(post)...)
		for _, q := range comms {
			data = append(data, pad32b(q)...)
		}
		b := cloneInsW(hw)
		b.InputHash = oracle.HashOfBytes(data)
		return try("packing-wide-start-index", b, rollup.Honest, false)
	case 9: // hash of an earlier batch of this history
		if earlier == nil || earlier.Cmp(contract) == 0 {
			return nil
		}
		b := cloneInsW(hw)
		b.InputHash = new(big.Int).Set(earlier)
		return try("hash-of-earlier-batch", b, rollup.Honest, false)
	case 10: // neighbours of the hash
		b := cloneInsW(hw)
		if t.Chance(1, 2) {
			b.InputHash.Add(b.InputHash, big.NewInt(1))
		} else {
			b.InputHash = t.BigBelow(oracle.R)
		}
		return try("public-input-off", b, rollup.Honest, false)
	default: // commitments in another order in the packing only
		if len(comms) < 2 || comms[0].Cmp(comms[1]) == 0 {
			return nil
		}
		data := append(be32(start32), pad32b(pre)...)
		data = append(data, pad32b(post)...)
		data = append(data, pad32b(comms[1])...)
		data = append(data, pad32b(comms[0])...)
		for _, q := range comms[2:] {
			data = append(data, pad32b(q)...)
		}
		b := cloneInsW(hw)
		b.InputHash = oracle.HashOfBytes(data)
		return try("packing-commitments-reordered", b, rollup.Honest, false)
	}
}

func (c *C03) attackDeletion(x *engine.Ctx, t *tape.Tape, cc *rollup.Circuit, w *rollup.World, hw *oracle.DeletionWitness, earlier *big.Int, blocks int, lg *[]attemptLog) *engine.Violation {
	contract := new(big.Int).Set(hw.InputHash)
	pre, post := oracle.Mod(hw.Pre), oracle.Mod(hw.Post)
	idx := make([]uint32, len(hw.Indices))
	for i := range idx {
		idx[i] = uint32(hw.Indices[i].Uint64())
	}
	try := func(fault string, bw *oracle.DeletionWitness, hs *rollup.HintStrategy, expect bool) *engine.Violation {
		v := cc.Attempt(rollup.AssignDeletion(bw), hs)
		name := "honest"
		if hs != nil {
			name = hs.Name
			if hs.Fired.Load() > 0 {
				x.S.Count("fault:hint-forgery/" + hs.Name)
			}
		}
		return c.bindVerdict(x, cc, fault, blocks, v, expect, contract, lg, name)
	}
	if v := try("none", hw, rollup.Honest, true); v != nil {
		return v
	}
	if t.Chance(1, 5) {
		return c.genericHintForgery(x, t, cc, func(p *big.Int) frontend.Circuit {
			b := cloneDelW(hw)
			b.InputHash = new(big.Int).Set(p)
			return rollup.AssignDeletion(b)
		}, contract, blocks, lg)
	}
	packIdx := func(ix []uint32) []byte {
		var d []byte
		for _, q := range ix {
			d = append(d, be32(q)...)
		}
		return d
	}
	switch t.Draw(11) {
	case 0:
		b := cloneDelW(hw)
		b.InputHash.Add(b.InputHash, new(big.Int).Mul(oracle.R, big.NewInt(int64(1+t.Draw(4)))))
		return try("public-input-plus-k-r", b, rollup.Honest, true)
	case 1, 2, 3:
		fields := []*big.Int{pre, post}
		order := t.Pick(2)
		for off := 0; off < 2; off++ {
			fv := fields[(order+off)%2]
			ks := altK(fv)
			if len(ks) == 0 {
				continue
			}
			k := ks[t.Pick(len(ks))]
			alt := new(big.Int).Add(fv, new(big.Int).Mul(oracle.R, big.NewInt(int64(k))))
			sub := func(v *big.Int) *big.Int {
				if v.Cmp(fv) == 0 {
					return alt
				}
				return v
			}
			data := append(packIdx(idx), pad32b(sub(pre))...)
			data = append(data, pad32b(sub(post))...)
			b := cloneDelW(hw)
			b.InputHash = oracle.HashOfBytes(data)
			x.S.Count("probe:alt_representative_fits_256_bits")
			if v := try("alt-representative-v-plus-kr", b, rollup.AltRep(map[string]int{fv.String(): k}, 256), false); v != nil {
				return v
			}
			return try("alt-representative-hash-honest-bits", b, rollup.Honest, false)
		}
		x.S.Count("probe:no_value_with_alt_representative")
		return nil
	case 4: // padding index changed (Merkle logic unaffected), original hash
		for i, ix := range idx {
			if uint64(ix) >= w.Size {
				b := cloneDelW(hw)
				n := uint64(ix) ^ 1
				if n < w.Size {
					n = w.Size
				}
				if n == uint64(ix) {
					continue
				}
				b.Indices[i] = new(big.Int).SetUint64(n)
				return try("other-padding-index-original-hash", b, rollup.Honest, false)
			}
		}
		return nil
	case 5: // real index changed to another leaf with the same value is impossible in general: use indices reordered
		if len(idx) < 2 || idx[0] == idx[1] {
			return nil
		}
		ix2 := append([]uint32{idx[1], idx[0]}, idx[2:]...)
		data := append(packIdx(ix2), pad32b(pre)...)
		data = append(data, pad32b(post)...)
		b := cloneDelW(hw)
		b.InputHash = oracle.HashOfBytes(data)
		return try("packing-indices-reordered", b, rollup.Honest, false)
	case 6:
		if pre.Cmp(post) == 0 {
			return nil
		}
		data := append(packIdx(idx), pad32b(post)...)
		data = append(data, pad32b(pre)...)
		b := cloneDelW(hw)
		b.InputHash = oracle.HashOfBytes(data)
		return try("packing-pre-post-swapped", b, rollup.Honest, false)
	case 7:
		var data []byte
		for _, q := range idx {
			data = append(data, reverse(be32(q))...)
		}
		data = append(data, reverse(pad32b(pre))...)
		data = append(data, reverse(pad32b(post))...)
		b := cloneDelW(hw)
		b.InputHash = oracle.HashOfBytes(data)
		return try("packing-little-endian", b, rollup.Honest, false)
	case 8: // 8-byte or 32-byte indices
		var data []byte
		wide := 28
		if t.Chance(1, 2) {
			wide = 4
		}
		for _, q := range idx {
			data = append(data, make([]byte, wide)...)
			data = append(data, be32(q)...)
		}
		data = append(data, pad32b(pre)...)
		data = append(data, pad32b(post)...)
		b := cloneDelW(hw)
		b.InputHash = oracle.HashOfBytes(data)
		return try("packing-wide-indices", b, rollup.Honest, false)
	case 9:
		if earlier == nil || earlier.Cmp(contract) == 0 {
			return nil
		}
		b := cloneDelW(hw)
		b.InputHash = new(big.Int).Set(earlier)
		return try("hash-of-earlier-batch", b, rollup.Honest, false)
	default:
		b := cloneDelW(hw)
		if t.Chance(1, 2) {
			b.InputHash.Sub(b.InputHash, big.NewInt(1))
			b.InputHash.Mod(b.InputHash, oracle.R)
		} else {
			b.InputHash = t.BigBelow(oracle.R)
		}
		return try("public-input-off", b, rollup.Honest, false)
	}
}

func cloneInsW(w *oracle.InsertionWitness) *oracle.InsertionWitness {
	c := *w
	c.InputHash = new(big.Int).Set(w.InputHash)
	c.Start = new(big.Int).Set(w.Start)
	return &c
}

func cloneDelW(w *oracle.DeletionWitness) *oracle.DeletionWitness {
	c := *w
	c.InputHash = new(big.Int).Set(w.InputHash)
	c.Indices = make([]*big.Int, len(w.Indices))
	for i := range c.Indices {
		c.Indices[i] = new(big.Int).Set(w.Indices[i])
	}
	return &c
}

// genericHintForgery: the dishonest prover forges whichever hint functions the compiled system uses today
// (rollup/generic_forge.go) on an otherwise honest, valid batch and is free to present any public input.
// Whatever it gets accepted must carry the contract's hash of the witnessed batch as its public input.
func (c *C03) genericHintForgery(x *engine.Ctx, t *tape.Tape, cc *rollup.Circuit, assign func(p *big.Int) frontend.Circuit, contract *big.Int, blocks int, lg *[]attemptLog) *engine.Violation {
	uses, err := cc.HintUses(assign(contract))
	if err != nil {
		panic(fmt.Sprintf("honest solve for hint discovery failed: %v", err))
	}
	if len(uses) == 0 {
		return nil
	}
	for k := 0; k < 3; k++ {
		u := uses[t.Pick(len(uses))]
		if u.Outputs == 0 {
			continue
		}
		g := &rollup.GenericForge{ID: u.ID, Out: t.Draw(u.Outputs), Delta: t.Draw(3), Comp: t.Draw(7)}
		if len(u.Keys) > 0 && t.Chance(1, 2) {
			g.Match = u.Keys[t.Pick(len(u.Keys))]
		}
		short := u.Name
		if i := strings.LastIndexAny(short, "/."); i >= 0 {
			short = short[i+1:]
		}
		hs := &rollup.HintStrategy{Name: "generic/" + short, Generic: g}
		v, p := cc.ForgeWithFreePublicInput(assign, contract, hs)
		x.S.Eval(1)
		if hs.Fired.Load() > 0 {
			x.S.Count("fault:hint-forgery/generic-output-shift-with-linear-compensation")
			x.S.Count("fault:hint-forgery/generic/" + short)
		}
		same := oracle.Mod(p).Cmp(contract) == 0
		x.S.Seen(fmt.Sprintf("%s/blocks%d/generic-hint-forgery/%s/out%d/d%d/c%d/all%v/%v", cc.Key(), blocks, short, g.Out%4, g.Delta, g.Comp, g.Match == "", v.Accepted))
		x.Log.Addf("prover", "generic-hint-forgery", "%s hint=%s out=%d delta=%d comp=%d all=%v public-is-contract-hash=%v accepted=%v", cc.Key(), short, g.Out, g.Delta, g.Comp, g.Match == "", same, v.Accepted)
		*lg = append(*lg, attemptLog{Op: cc.Mode, Fault: "generic-hint-forgery/" + short, Oracle: verdictStr(same), Circuit: verdictStr(v.Accepted), Hints: hs.Name})
		if v.SolverOK != v.EvalOK {
			panic("solver and independent evaluator disagree")
		}
		if v.Accepted && !same {
			return engine.Violatef("C03/unbound-public-input-accepted/generic-hint-forgery/"+short, "%s: with the outputs of hint %s forged (output %d shifted, the others compensated linearly) the circuit is satisfied for public input %s, which is not the contract's hash %s of the witnessed batch", cc.Key(), u.Name, g.Out, p.Text(16), contract.Text(16))
		}
	}
	return nil
}
