package checks

import (
	"bytes"
	"fmt"
	"sort"
	"strconv"
	"strings"
	"time"

	"verifsim/engine"
	"verifsim/service"
	"verifsim/tape"
)

// ---------------------------------------------------------------------------------------
// C13: concurrent prove requests are isolated from one another

type C13 struct{ svc }

func init() {
	register(&C13{svc{base: base{id: "C13", level: "exploration"}, sysW: -1}})
	register(&C09{svc{base: base{id: "C09", level: "exploration"}, sysW: -1}})
	register(&C20{svc{base: base{id: "C20", level: "exploration"}, sysW: -1}})
}

func (c *C13) Rule() string {
	return "one run = 2..5 overlapping /prove requests (at least two valid ones with pairwise distinct input hashes, mixed with unsatisfiable, mis-shaped, malformed and non-POST ones) on one real server; every hand-over between handler goroutines happens at an inserted yield point chosen by the tape (uniform, sticky, PCT with 1..3 priority changes, starve-one), request bytes arrive in tape-chosen fragments; each response is judged against its own request only (status, error code, proof decoded by our decoder verifying for its own hash); evaluations = responses judged; non-trivial = run in which at least two handler tasks were enabled at the same step; distinct = context switches actually taken (site of task X -> next site of task Y != X); in a quarter of the runs 2..12 further clients stall inside their request bodies until the system has been quiet for 5 s of simulated time, and the other requests must be answered meanwhile"
}
func (c *C13) Plan(tier string) engine.Plan {
	if tier == "thorough" {
		return engine.Plan{Runs: 1000000, Workers: 8, BudgetSec: 1500, ShrinkSec: 300}
	}
	return engine.Plan{Runs: 1000000, Workers: 8, BudgetSec: 75, ShrinkSec: 90}
}

func pickRequest(t *tape.Tape, g *service.Gen, weights [6]int) *service.Request {
	switch t.Weighted(weights[:]...) {
	case 0:
		return g.Valid()
	case 1:
		return g.InvalidBatch()
	case 2:
		return g.WrongShape()
	case 3:
		return g.Malformed()
	case 4:
		return g.Grey()
	default:
		return g.NonPost()
	}
}

func (c *C13) Run(x *engine.Ctx) *engine.Violation {
	t := x.T
	if x.Run == 1 && raceBin() != "" {
		return c.raceScenario(x) // uncontrolled -race companion mode
	}
	sim := service.NewSim(t, x.Log, x.S)
	sim.Configure([]int{service.StratUniform, service.StratSticky, service.StratPCT, service.StratPCT, service.StratStarve})
	w := &service.World{Sim: sim, Sys: c.sys, Cycles: 1, StopAfterBegun: -1, WaitBound: true}
	gen := &service.Gen{T: t, Sys: c.sys}
	n := 2 + t.Draw(4)
	weights := [6]int{3, 2, 1, 2, 0, 1}
	if t.Chance(1, 5) {
		// a crowd: 9..16 requests in flight at once, most of them cheap to refuse, around the two valid ones - whatever
		// the server keeps per request in a bounded structure (a ring, a pool, a fixed table) gets recycled while the
		// slow ones are still being proved
		n = 9 + t.Draw(8)
		weights = [6]int{1, 3, 2, 5, 0, 1}
		sim.MaxSteps += n * 800
		x.S.Count("probe:crowd_of_nine_or_more_overlapping_requests")
	}
	for i := 0; i < n; i++ {
		var r *service.Request
		if i < 2 {
			r = gen.Valid()
		} else if t.Chance(1, 4) {
			r = gen.InvalidVariantOf(w.Requests()[t.Pick(2)]) // shares hash and a root with one of the valid requests
		} else {
			r = pickRequest(t, gen, weights)
		}
		w.AddConn(&service.ClientConn{Addr: service.ProverAddr, Reqs: []*service.Request{r}, Frag: t.Draw(4), StartStep: 55 + t.Draw(40)})
	}
	slow := 0
	if t.Chance(1, 4) {
		// slow uploaders: 2..12 further clients whose requests stop arriving somewhere inside the body (headers
		// delivered, the handler is reading) and resume only once the rest of the system has gone quiet. The
		// requests above are dialled after that point; their responses may not wait for the slow clients.
		slow = 2 + t.Draw(11)
		for _, cc := range w.Conns {
			cc.AfterFrozen = true
		}
		for i := 0; i < slow; i++ {
			var r *service.Request
			if i == 0 && t.Chance(1, 2) {
				r = gen.Valid()
			} else if t.Chance(1, 2) {
				r = gen.InvalidBatch()
			} else {
				r = gen.Malformed()
			}
			head := bytes.Index(r.Raw, []byte("\r\n\r\n")) + 4
			if head < 4 || len(r.Raw)-head < 2 {
				continue // no body to stall in
			}
			w.AddConn(&service.ClientConn{Addr: service.ProverAddr, Reqs: []*service.Request{r}, Frag: t.Draw(4), StartStep: 50 + t.Draw(20), FreezeAt: head + t.Draw(len(r.Raw)-head-1)})
		}
		sim.MaxSteps += slow * 800
		x.S.Count("fault:net/slow-uploaders-stalled-mid-body")
	}
	runWorld(x, sim, w, c.sys.Mode)
	x.S.Count("runs_strategy_" + sim.StrategyName())
	noteSwitches(x, sim)
	traceSample(x, sim, w, nil)
	if slow > 0 && w.FrozenPhaseReached {
		x.S.Count("probe:requests_served_while_other_uploads_were_stalled")
		if len(w.BlockedByFrozen) > 0 {
			r := w.BlockedByFrozen[0]
			return engine.Violatef("C13/response-waits-for-other-clients-uploads", "request #%d (%s %s, sent completely) was still unanswered after the server had gone quiet for 5 s of simulated time while %d other clients were part-way through uploading their bodies; it was answered only after they resumed [strategy %s]", r.ID, r.Method, r.Kind, slow, sim.StrategyName())
		}
	}
	if w.Stuck {
		return engine.Violatef("C13/requests-never-complete", "%s after %d steps; parked: %v", w.StuckWhy, sim.Step, sim.ParkedAt())
	}
	for _, r := range w.Requests() {
		x.S.Eval(1)
		if cls, detail := service.Judge(c.sys, r); cls != "" {
			return engine.Violatef("C13/response-not-determined-by-own-request/"+cls, "%s [strategy %s, %d overlapping requests]", detail, sim.StrategyName(), n)
		}
	}
	// a proof returned for one request must not be the proof of another request of the run
	var valid []*service.Request
	for _, r := range w.Requests() {
		if r.Resp != nil && r.Resp.Status == 200 && !r.Metrics {
			valid = append(valid, r)
		}
	}
	for i, a := range valid {
		for j, b := range valid {
			if i != j && a.Hash != nil && b.Hash != nil && a.Hash.Cmp(b.Hash) != 0 && bytes.Equal(a.Resp.Body, b.Resp.Body) {
				return engine.Violatef("C13/same-proof-returned-to-two-requests", "requests %d and %d (different input hashes) received identical proofs", a.ID, b.ID)
			}
		}
	}
	return nil
}

// ---------------------------------------------------------------------------------------
// C09: /prove answers every request with the documented status, code and a valid proof

type C09 struct{ svc }

func (c *C09) Rule() string {
	return "one run = a history of 3..9 requests on one real server over 2..4 connections (sequential keep-alive or pipelined): valid batches, well-formed-but-invalid batches, wrong array shapes, 16 kinds of malformed bodies, grey inputs, non-POST methods; framed with Content-Length, chunked encoding or Expect: 100-continue; delivered in tape-chosen fragments; network faults: Content-Length shorter or longer than the body, client half-closing or resetting mid-body, client leaving before the response; a final valid request on a fresh connection must succeed; each response is compared with the reference classifier (grey inputs: any documented 400 or a valid 200); evaluations = requests judged; non-trivial = request other than a plain valid one; distinct = (request kind, framing, fragment plan, network fault, outcome)"
}
func (c *C09) Plan(tier string) engine.Plan {
	if tier == "thorough" {
		return engine.Plan{Runs: 1000000, Workers: 8, BudgetSec: 1500, ShrinkSec: 300}
	}
	return engine.Plan{Runs: 1000000, Workers: 8, BudgetSec: 75, ShrinkSec: 90}
}

// reframe renders the request again with another framing or a deliberately wrong Content-Length.
func reframe(t *tape.Tape, r *service.Request, cc *service.ClientConn, last bool) string {
	if r.Method != "POST" {
		return "plain"
	}
	switch t.Weighted(6, 2, 1, 1, 1) {
	case 1:
		r.Raw = service.RawRequest(r.Method, "/prove", r.Body, service.FrameChunked)
		return "chunked"
	case 2:
		r.Raw = service.RawRequest(r.Method, "/prove", r.Body, service.FrameExpect100)
		return "expect-100-continue"
	case 3:
		// Content-Length shorter than the body: the server sees a truncated document
		if !last || len(r.Body) < 4 || r.Body[0] != '{' {
			return "plain"
		}
		cut := 1 + t.Draw(len(r.Body)-2)
		raw := service.RawRequest(r.Method, "/prove", r.Body[:len(r.Body)-cut], service.FrameCL)
		r.Raw = append(raw, r.Body[len(r.Body)-cut:]...)
		r.Expect = service.Expect{Status: 400, Code: "malformed_body"}
		r.Kind = "malformed/content-length-short+" + r.Kind
		return "content-length-short"
	case 4:
		// Content-Length longer than what is ever sent; the client then half-closes or resets
		if !last {
			return "plain"
		}
		extra := 1 + t.Draw(64)
		raw := service.RawRequest(r.Method, "/prove", append(append([]byte{}, r.Body...), make([]byte, extra)...), service.FrameCL)
		r.Raw = raw
		cc.CutAt = len(raw) - extra
		if t.Chance(1, 2) {
			cc.Vanish = 1
			r.Expect = service.Expect{Status: 400, Code: "malformed_body"}
			r.Kind = "malformed/body-ends-early-half-close+" + r.Kind
			return "content-length-long-half-close"
		}
		cc.Vanish = 2
		r.NoResponseOK = true
		r.Kind = "vanished/reset-mid-body+" + r.Kind
		return "content-length-long-reset"
	}
	return "plain"
}

func (c *C09) Run(x *engine.Ctx) *engine.Violation {
	t := x.T
	sim := service.NewSim(t, x.Log, x.S)
	sim.Configure([]int{service.StratSticky, service.StratSticky, service.StratUniform, service.StratPCT})
	w := &service.World{Sim: sim, Sys: c.sys, Cycles: 1, StopAfterBegun: -1, WaitBound: true}
	gen := &service.Gen{T: t, Sys: c.sys}
	nconn := 1 + t.Draw(3)
	type meta struct{ frame, fault string }
	metas := map[*service.Request]meta{}
	// valid requests opening a connection, with the step at which that connection starts: a later connection may
	// open, at about the same moment, with an invalid variant of one of them (same input hash, other content), so
	// that the two are in the handler at the same time - each is owed the answer to its own content
	type opener struct {
		r    *service.Request
		step int
	}
	var openers []opener
	for i := 0; i < nconn; i++ {
		cc := &service.ClientConn{Addr: service.ProverAddr, Frag: t.Draw(4), StartStep: 55 + t.Draw(60), Pipelined: t.Chance(1, 4), CutAt: -1}
		k := 1 + t.Draw(3)
		var lastValid *service.Request
		for j := 0; j < k; j++ {
			r := pickRequest(t, gen, [6]int{3, 2, 2, 5, 2, 2})
			if lastValid != nil && t.Chance(1, 3) {
				r = gen.InvalidVariantOf(lastValid) // same key material as an earlier valid request, invalid batch
			}
			if j == 0 && len(openers) > 0 && t.Chance(1, 2) {
				o := openers[t.Pick(len(openers))]
				r = gen.InvalidVariantOf(o.r)
				r.Kind += "+overlapping-its-valid-twin"
				cc.StartStep = o.step + t.Draw(9) - 2
				cc.Frag = 0
				x.S.Count("probe:invalid_variant_sent_alongside_its_valid_twin")
			} else if j == 0 && i+1 < nconn && t.Chance(1, 2) {
				r = gen.Valid()
			}
			if j == 0 && r.Doc != nil && strings.HasPrefix(r.Kind, "valid") {
				openers = append(openers, opener{r, cc.StartStep})
			}
			if r.Doc != nil {
				lastValid = r
			}
			fr := reframe(t, r, cc, j == k-1)
			metas[r] = meta{frame: fr}
			cc.Reqs = append(cc.Reqs, r)
		}
		last := cc.Reqs[len(cc.Reqs)-1]
		if cc.Vanish == 0 && cc.CutAt < 0 && t.Chance(1, 8) {
			// client disappears: mid-request (reset) or before reading the response
			if t.Chance(1, 2) {
				cc.CutAt = 1 + t.Draw(len(last.Raw)-1)
				cc.Vanish = 2
				last.NoResponseOK = true
				metas[last] = meta{metas[last].frame, "reset-mid-request"}
			} else {
				cc.LeaveBeforeResponse = true
				metas[last] = meta{metas[last].frame, "leave-before-response"}
			}
		}
		w.AddConn(cc)
	}
	final := gen.Valid()
	w.AddConn(&service.ClientConn{Addr: service.ProverAddr, Reqs: []*service.Request{final}, AfterOthers: true, CutAt: -1})
	runWorld(x, sim, w, c.sys.Mode)
	x.S.Count("runs_strategy_" + sim.StrategyName())
	traceSample(x, sim, w, nil)
	for _, cc := range w.Conns {
		for _, r := range cc.Reqs {
			m := metas[r]
			if m.fault != "" {
				x.S.Count("fault:net/" + m.fault)
			}
			if m.frame != "" && m.frame != "plain" {
				x.S.Count("fault:framing/" + m.frame)
			}
			out := "none"
			if r.Resp != nil {
				out = strconv.Itoa(r.Resp.Status) + service.ErrorCode(r.Resp.Body)
			}
			if r != final && r.Kind != "valid" {
				x.S.Seen(fmt.Sprintf("%s/%s/%s/frag%d/%s", r.Kind, m.frame, m.fault, cc.Frag, out))
			}
		}
	}
	if w.Stuck {
		return engine.Violatef("C09/server-hangs", "%s after %d steps; parked: %v", w.StuckWhy, sim.Step, sim.ParkedAt())
	}
	for _, r := range w.Requests() {
		x.S.Eval(1)
		if cls, detail := service.Judge(c.sys, r); cls != "" {
			if r == final {
				return engine.Violatef("C09/server-does-not-answer-normally-after-history/"+cls, "%s (final valid request after the history)", detail)
			}
			return engine.Violatef("C09/"+cls, "%s [framing %s fault %s]", detail, metas[r].frame, metas[r].fault)
		}
	}
	return nil
}

// ---------------------------------------------------------------------------------------
// C20: request metrics account for every /prove response exactly once

type C20 struct{ svc }

func (c *C20) Rule() string {
	return "one run = 2..7 /prove requests of all kinds and methods, overlapping under tape-chosen scheduling, plus 1..2 metrics scrapes scheduled like any other client action (also while handlers are parked mid-proof) and a final scrape after every response has arrived; conservation oracle at the final scrape: http_requests_total{endpoint_pattern=\"/prove\"} per (method label, code) equals the simulator's tally of responses the server sent and http_requests_in_flight is 0; mid-run scrapes must succeed and lie between responses already sent and requests begun; evaluations = scrapes checked; non-trivial = scrape taken while at least one handler task was parked, or final scrape over >= 2 distinct (method, code) pairs; distinct = multiset of (method, code) pairs x scrape position class"
}
func (c *C20) Assumptions() []string {
	return append(c.svc.Assumptions(), "method label spelling follows client_golang's documented convention (lower-case standard methods, otherwise \"unknown\"); a response whose client vanished before reading it may or may not have been sent: the tally treats it as slack")
}
func (c *C20) Plan(tier string) engine.Plan {
	if tier == "thorough" {
		return engine.Plan{Runs: 1000000, Workers: 8, BudgetSec: 1500, ShrinkSec: 300}
	}
	return engine.Plan{Runs: 1000000, Workers: 8, BudgetSec: 75, ShrinkSec: 90}
}

func (c *C20) Run(x *engine.Ctx) *engine.Violation {
	t := x.T
	if x.Run == 1 && raceBin() != "" {
		return c.raceScenario(x) // uncontrolled companion mode: porcupine over the scrape history
	}
	sim := service.NewSim(t, x.Log, x.S)
	sim.Configure([]int{service.StratUniform, service.StratSticky, service.StratPCT, service.StratStarve})
	w := &service.World{Sim: sim, Sys: c.sys, Cycles: 1, StopAfterBegun: -1, WaitBound: true}
	gen := &service.Gen{T: t, Sys: c.sys}
	faulty := t.Chance(1, 4) // fault-free and fault-injecting configurations are separate
	if t.Chance(1, 2) {
		w.PrioScrape = 1 + t.Draw(4)
	}
	// swarm knob: in a third of the runs every configuration field of server.Config the harness does not know
	// by name (a timeout, a limit, a switch - whatever the tree offers today) gets a drawn value, and the clock
	// jumps once while work is in progress so that a timeout among them can fire; the conservation law is
	// stated over the responses actually sent, so it holds under every supported configuration
	if t.Chance(1, 3) {
		for i := 0; i < 6; i++ {
			w.Knobs = append(w.Knobs, t.Weighted(3, 1, 1, 1, 1))
		}
		w.TimeJumps = append(w.TimeJumps, service.TimeJump{Step: 60 + t.Draw(300), D: []time.Duration{2 * time.Second, 12 * time.Second, time.Minute}[t.Pick(3)]})
	}
	if t.Chance(1, 5) {
		w.Cycles = 2 // a restart on the same addresses: every Run has its own registry and counts from zero
		x.S.Count("probe:runs_with_restart")
	}
	for cyc := 0; cyc < w.Cycles; cyc++ {
		n := 2 + t.Draw(6)
		if cyc > 0 {
			n = 1 + t.Draw(3)
		}
		for i := 0; i < n; i++ {
			r := pickRequest(t, gen, [6]int{2, 2, 1, 3, 1, 4})
			cc := &service.ClientConn{Addr: service.ProverAddr, Reqs: []*service.Request{r}, Frag: t.Draw(4), StartStep: 55 + t.Draw(80), CutAt: -1, Cycle: cyc}
			if len(w.Knobs) > 0 {
				// harness limit, stated: with a timeout knob set, a timeout answer racing a half-received body makes
				// net/http wait on the request body's mutex, a block testing/synctest does not count as durable - the
				// fake clock could never move again (the stall monitor would end the run with exit 2). Knob runs
				// therefore deliver each request in one piece; the clock jump then finds handlers parked at yields.
				cc.Frag = 0
			}
			if faulty && t.Chance(1, 3) {
				cc.LeaveBeforeResponse = true
				x.S.Count("fault:net/leave-before-response")
			}
			w.AddConn(cc)
		}
		mid := 1 + t.Draw(2)
		for i := 0; i < mid; i++ {
			w.AddConn(&service.ClientConn{Addr: service.MetricsAddr, Reqs: []*service.Request{service.MetricsScrape()}, StartStep: 60 + t.Draw(400), CutAt: -1, Cycle: cyc})
		}
		w.AddConn(&service.ClientConn{Addr: service.MetricsAddr, Reqs: []*service.Request{service.MetricsScrape()}, AfterOthers: true, CutAt: -1, Cycle: cyc})
	}
	runWorld(x, sim, w, c.sys.Mode)
	x.S.Count("runs_strategy_" + sim.StrategyName())
	traceSample(x, sim, w, map[string]any{"scrapes": w.Scrapes})
	if w.Stuck {
		return engine.Violatef("C20/run-does-not-complete", "%s after %d steps", w.StuckWhy, sim.Step)
	}
	if len(w.KnobLog) > 0 {
		x.S.Count("probe:runs_with_configuration_knobs_set")
	}
	for cyc := 0; cyc < w.Cycles; cyc++ {
		if v := c.judgeCycle(x, sim, w, cyc); v != nil {
			if len(w.KnobLog) > 0 {
				v.Detail += " [server.Config knobs set by the harness: " + strings.Join(w.KnobLog, ", ") + "]"
			}
			return v
		}
	}
	return nil
}

func (c *C20) judgeCycle(x *engine.Ctx, sim *service.Sim, w *service.World, cyc int) *engine.Violation {
	// tally of responses the server sent, as seen by the clients
	tally := map[string]int{}
	slack := 0
	total := 0
	var scrapes []service.Scrape
	for _, sc := range w.Scrapes {
		if sc.Cycle == cyc {
			scrapes = append(scrapes, sc)
		}
	}
	for _, r := range w.Requests() {
		if r.Metrics || r.Cycle != cyc {
			continue
		}
		total++
		if r.Resp != nil {
			tally[service.MethodLabel(r.Method)+"/"+strconv.Itoa(r.Resp.Status)]++
		} else if r.NoResponseOK {
			slack++
		} else {
			return engine.Violatef("C20/request-without-response", "request %d (%s %s) got no response", r.ID, r.Method, r.Kind)
		}
	}
	for _, r := range w.Requests() {
		if r.Cycle != cyc {
			continue
		}
		if r.Metrics && r.Resp == nil {
			return engine.Violatef("C20/metrics-endpoint-unavailable", "scrape %d (cycle %d) got no complete response (steps %d)", r.ID, cyc, sim.Step)
		}
		if r.Metrics && r.Resp.Status != 200 {
			return engine.Violatef("C20/metrics-endpoint-unavailable", "scrape %d answered %d", r.ID, r.Resp.Status)
		}
	}
	if len(scrapes) == 0 {
		return engine.Violatef("C20/metrics-endpoint-unavailable", "no scrape completed in cycle %d", cyc)
	}
	keys := func(m map[string]int) string {
		ks := make([]string, 0, len(m))
		for k, v := range m {
			ks = append(ks, fmt.Sprintf("%s=%d", k, v))
		}
		sort.Strings(ks)
		return fmt.Sprint(ks)
	}
	for i, sc := range scrapes {
		x.S.Eval(1)
		isFinal := i == len(scrapes)-1
		if sc.BlockedBehindProof {
			return engine.Violatef("C20/metrics-endpoint-blocked-while-proof-in-flight", "scrape answered at step %d had been delivered to and accepted by the metrics server while a handler was parked in front of the Groth16 prover call; every task not about to compute a proof was then run until none was enabled and five seconds of fake time passed, and the scrape still had no answer: it could only be answered after a proof computation (%s)", sc.Step, sc.BlockedWhy)
		}
		if !sc.OK {
			return engine.Violatef("C20/metrics-endpoint-unavailable", "scrape at step %d failed", sc.Step)
		}
		sum := 0.0
		for _, v := range sc.Totals {
			sum += v
		}
		if !isFinal {
			// bounds only: the property promises nothing more about mid-run values
			for k, lo := range sc.SentLo {
				if int(sc.Totals[k]) < lo {
					return engine.Violatef("C20/mid-run-total-below-responses-already-sent", "scrape at step %d: %s reported %v, %d responses of that kind had already reached clients", sc.Step, k, sc.Totals[k], lo)
				}
			}
			if int(sum) > sc.Begun {
				return engine.Violatef("C20/mid-run-total-above-requests-begun", "scrape at step %d: totals sum to %v but only %d requests had reached the server", sc.Step, sum, sc.Begun)
			}
			sent := 0
			for _, v := range sc.SentLo {
				sent += v
			}
			if sc.Begun > sent && sc.HasGauge && sc.InFlight > 0 {
				x.S.Count("probe:scrape_while_request_in_flight")
				x.S.Seen(fmt.Sprintf("mid/inflight%v/%s", sc.InFlight, keys(sc.SentLo)))
			}
			continue
		}
		if len(tally) >= 2 {
			x.S.Seen("final/" + keys(tally))
		}
		for k, want := range tally {
			got := int(sc.Totals[k])
			if got < want || got > want+slack {
				return engine.Violatef("C20/final-total-differs-from-responses-sent", "final scrape: %s reported %d, clients received %d such responses (slack for vanished clients %d); all reported: %v; tally: %s", k, got, want, slack, sc.Totals, keys(tally))
			}
		}
		for k, v := range sc.Totals {
			if _, ok := tally[k]; !ok && v > float64(slack) {
				return engine.Violatef("C20/final-total-reports-responses-never-sent", "final scrape: %s=%v but no client received such a response; tally: %s", k, v, keys(tally))
			}
		}
		// the final scrape is taken once no handler task is parked any more, so every request that reached
		// the handler has been counted, whether or not its client waited for the answer
		if int(sum) > total || int(sum) < total-slack {
			return engine.Violatef("C20/final-total-differs-from-responses-sent", "final scrape: totals sum to %v for %d requests (slack %d)", sum, total, slack)
		}
		if total > 0 && !sc.HasGauge {
			return engine.Violatef("C20/in-flight-gauge-missing", "final scrape has no http_requests_in_flight{endpoint_pattern=\"/prove\"}")
		}
		if sc.InFlight != 0 {
			return engine.Violatef("C20/in-flight-gauge-not-zero-after-completion", "final scrape (cycle %d): in-flight gauge %v although every handler has finished (clients that left early: %d)", cyc, sc.InFlight, slack)
		}
	}
	return nil
}
