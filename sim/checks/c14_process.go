package checks

import (
	"bufio"
	"bytes"
	"fmt"
	"io"
	"net"
	"net/http"
	"os"
	"os/exec"
	"path/filepath"
	"strings"
	"sync"
	"syscall"
	"time"

	"verifsim/engine"
	"verifsim/ops"
	"verifsim/service"

	"worldcoin/gnark-mbu/prover"
)

// Process clause of C14: `gnark-mbu start` as a real process on loopback ports, SIGINT while a
// request is inside the handler (confirmed through the in-flight gauge). Real sockets and an
// uncontrolled schedule: every assertion is timing-independent.

var c14KeysOnce sync.Once
var c14KeysPath string

func (c *C14) keysFile() string {
	c14KeysOnce.Do(func() {
		dir, err := ops.Scratch(fmt.Sprintf("c14p-%d", os.Getpid()))
		if err != nil {
			panic(err)
		}
		c14KeysPath = filepath.Join(dir, "keys.ps")
		f, err := os.Create(c14KeysPath)
		if err != nil {
			panic(err)
		}
		defer f.Close()
		if _, err := c.sys.PS.WriteRawTo(f); err != nil {
			panic(err)
		}
	})
	return c14KeysPath
}

func freePort(start int) int {
	for p := start; p < start+2000; p++ {
		l, err := net.Listen("tcp", fmt.Sprintf("127.0.0.1:%d", p))
		if err == nil {
			l.Close()
			return p
		}
	}
	panic("no free loopback port")
}

func (c *C14) processClause(x *engine.Ctx) *engine.Violation {
	t := x.T
	if ops.Bin() == "" {
		panic("VERIF_MBU_BIN not set")
	}
	keys := c.keysFile()
	// the scenario presupposes that a keys file written by this tree loads back as the same system
	// (C11 decides that); if it does not, the clause is skipped rather than blamed on shutdown
	if ps2, err := prover.ReadSystemFromFile(keys); err != nil || ps2.TreeDepth != c.sys.PS.TreeDepth || ps2.BatchSize != c.sys.PS.BatchSize {
		x.S.Count("probe:process_clause_skipped_keys_file_does_not_reload")
		return nil
	}
	base := 21000 + int((x.Seed*977+x.Run*131)%20000)
	pp := freePort(base)
	mp := freePort(pp + 1)
	pa, ma := fmt.Sprintf("127.0.0.1:%d", pp), fmt.Sprintf("127.0.0.1:%d", mp)
	args := []string{"start", "--mode", c.sys.Mode, "--keys-file", keys, "--prover-address", pa, "--metrics-address", ma}
	if t.Chance(1, 2) {
		args = append(args, "--json-logging")
	}
	cmd := exec.Command(ops.Bin(), args...)
	var se bytes.Buffer
	cmd.Stderr, cmd.Stdout = &se, &se
	cmd.Env = append(os.Environ(), "VERIF_RAND_SEED="+fmt.Sprint(t.U32()))
	if err := cmd.Start(); err != nil {
		panic(err)
	}
	exited := make(chan error, 1)
	go func() { exited <- cmd.Wait() }()
	kill := func() { cmd.Process.Kill() }
	client := &http.Client{Timeout: 120 * time.Second}
	// readiness: the metrics endpoint answers
	ready := false
	for i := 0; i < 1200 && !ready; i++ {
		select {
		case err := <-exited:
			panic(fmt.Sprintf("gnark-mbu start exited before serving: %v\n%s", err, ops.Tail(se.Bytes(), 500)))
		default:
		}
		if resp, err := client.Get("http://" + ma + "/metrics"); err == nil {
			io.Copy(io.Discard, resp.Body)
			resp.Body.Close()
			// the prover listener may come up a moment later
			if conn, err := net.Dial("tcp", pa); err == nil {
				conn.Close()
				ready = true
			}
		}
		if !ready {
			time.Sleep(50 * time.Millisecond)
		}
	}
	if !ready {
		kill()
		panic("gnark-mbu start did not become ready within 60 s")
	}
	gen := &service.Gen{T: t, Sys: c.sys}
	n := 1 + t.Draw(2)
	repeat, repeatGap := 0, 0
	if t.Chance(1, 2) {
		repeat, repeatGap = 1+t.Draw(2), 1+t.Draw(300)
	}
	type result struct {
		req    *service.Request
		status int
		body   []byte
		err    error
	}
	results := make(chan result, n)
	// slow: the first request is sent over a raw connection, headers and half of the body before the
	// signal, the rest only after every signal has been sent: the request is accepted and inside the
	// handler (reading its body) for the whole time the stop is being honoured
	slow := t.Chance(1, 3) || repeat > 0 // repeated signals are only a test while something is still being drained
	releaseSlow := make(chan struct{})
	if slow {
		x.S.Count("fault:process/request-body-completed-only-after-the-signals")
	}
	for i := 0; i < n; i++ {
		r := gen.Valid()
		if slow && i == 0 {
			go func() {
				conn, err := net.Dial("tcp", pa)
				if err != nil {
					results <- result{req: r, err: err}
					return
				}
				defer conn.Close()
				conn.SetDeadline(time.Now().Add(150 * time.Second))
				head := fmt.Sprintf("POST /prove HTTP/1.1\r\nHost: %s\r\nContent-Type: application/json\r\nContent-Length: %d\r\nConnection: close\r\n\r\n", pa, len(r.Body))
				half := len(r.Body) / 2
				if _, err := conn.Write(append([]byte(head), r.Body[:half]...)); err != nil {
					results <- result{req: r, err: err}
					return
				}
				<-releaseSlow
				if _, err := conn.Write(r.Body[half:]); err != nil {
					results <- result{req: r, err: fmt.Errorf("writing the rest of the body of an accepted request: %w", err)}
					return
				}
				resp, err := http.ReadResponse(bufio.NewReader(conn), nil)
				if err != nil {
					results <- result{req: r, err: fmt.Errorf("reading the response of an accepted request: %w", err)}
					return
				}
				b, err := io.ReadAll(resp.Body)
				resp.Body.Close()
				results <- result{req: r, status: resp.StatusCode, body: b, err: err}
			}()
			continue
		}
		go func() {
			resp, err := client.Post("http://"+pa+"/prove", "application/json", bytes.NewReader(r.Body))
			if err != nil {
				results <- result{req: r, err: err}
				return
			}
			b, err := io.ReadAll(resp.Body)
			resp.Body.Close()
			results <- result{req: r, status: resp.StatusCode, body: b, err: err}
		}()
	}
	// wait until the gauge shows a request inside the handler (or give up: the proof may be done already)
	sawInFlight := false
	for i := 0; i < 400 && !sawInFlight; i++ {
		if resp, err := client.Get("http://" + ma + "/metrics"); err == nil {
			b, _ := io.ReadAll(resp.Body)
			resp.Body.Close()
			_, inflight, has := service.ParseMetrics(b)
			if has && inflight >= 1 {
				sawInFlight = true
			}
			tot, _, _ := service.ParseMetrics(b)
			done := 0.0
			for _, v := range tot {
				done += v
			}
			if int(done) >= n {
				break
			}
		}
		time.Sleep(2 * time.Millisecond)
	}
	if sawInFlight {
		x.S.Count("probe:sigint_sent_while_gauge_showed_request_in_flight")
	}
	x.S.Count("fault:process/SIGINT")
	cmd.Process.Signal(syscall.SIGINT)
	if repeat > 0 {
		// an impatient operator (or a supervisor that signals the whole process group as well): further
		// stop requests while the first one is being honoured; they are stop requests like the first
		for i := 0; i < repeat; i++ {
			time.Sleep(time.Duration(repeatGap) * time.Millisecond)
			x.S.Count("fault:process/repeated-SIGINT-while-draining")
			cmd.Process.Signal(syscall.SIGINT)
		}
	}
	if slow {
		time.Sleep(time.Duration(1+t.Draw(200)) * time.Millisecond)
	}
	close(releaseSlow)
	x.S.Eval(1)
	x.S.Seen(fmt.Sprintf("process/%s/inflight=%v/requests=%d/slow=%v/signals=%d", c.sys.Key(), sawInFlight, n, slow, 1+repeat))
	var viol *engine.Violation
	for i := 0; i < n; i++ {
		select {
		case r := <-results:
			if r.err != nil {
				if sawInFlight || true {
					// a request sent before SIGINT whose connection was accepted must be answered; one that
					// was still in the listen backlog may be refused: distinguish by the error
					if strings.Contains(r.err.Error(), "connection refused") || strings.Contains(r.err.Error(), "connection reset") && !sawInFlight {
						continue
					}
				}
				if viol == nil {
					viol = engine.Violatef("C14/process/in-flight-request-lost-on-sigint", "request sent before SIGINT got no complete response: %v (in-flight seen: %v)", r.err, sawInFlight)
				}
				continue
			}
			if r.status != 200 {
				if viol == nil {
					viol = engine.Violatef("C14/process/in-flight-request-answered-wrongly", "status %d body %.200s", r.status, string(r.body))
				}
				continue
			}
			if len(r.body) == 0 && viol == nil {
				viol = engine.Violatef("C14/process/in-flight-request-answered-wrongly", "200 with an empty body")
			}
		case <-time.After(120 * time.Second):
			if viol == nil {
				viol = engine.Violatef("C14/process/in-flight-request-lost-on-sigint", "no response within 120 s after SIGINT")
			}
		}
	}
	select {
	case err := <-exited:
		code := 0
		if err != nil {
			code = -1
			if ee, ok := err.(*exec.ExitError); ok {
				code = ee.ExitCode()
			}
		}
		x.Log.Addf("process", "exit", "code=%d", code)
		if code != 0 && viol == nil {
			viol = engine.Violatef("C14/process/exit-status-nonzero-after-sigint", "gnark-mbu start exited with %d after SIGINT: %s", code, ops.Tail(se.Bytes(), 400))
		}
	case <-time.After(60 * time.Second):
		kill()
		<-exited
		if viol == nil {
			viol = engine.Violatef("C14/process/does-not-exit-after-sigint", "no exit within 60 s of SIGINT: %s", ops.Tail(se.Bytes(), 400))
		}
	}
	for _, a := range []string{pa, ma} {
		l, err := net.Listen("tcp", a)
		if err != nil {
			if viol == nil {
				viol = engine.Violatef("C14/process/port-still-bound-after-exit", "%s: %v", a, err)
			}
			continue
		}
		l.Close()
	}
	if x.S.WantSample() {
		x.S.Sample(map[string]any{"process": strings.Join(args, " "), "requests_before_sigint": n, "gauge_showed_in_flight": sawInFlight, "violation": viol != nil})
	}
	return viol
}
