package checks

import (
	"fmt"
	"math/big"
	"strings"

	"verifsim/engine"
	"verifsim/gtier"
	"verifsim/oracle"
	"verifsim/rollup"
	"verifsim/tape"
)

// rollupCheck is the shared World-R machinery of C01, C02 and C03: a pool of real compiled
// circuits per worker process, histories on one contract model, the adversary catalogue and
// the two-directional comparison of oracle verdict and circuit verdict.
type rollupCheck struct {
	base
	focus string // C01 | C02 | C03
	pool  []*rollup.Circuit
	poolW int
	dummy map[string]*gtier.System // per compiled circuit: the repository's ProvingSystem on DummySetup keys
}

type dims struct {
	mode         string
	depth, batch int
}

func (c *rollupCheck) poolFor(tier string, worker, nworkers int, seed uint64) []dims {
	t := tape.New(seed^0xC0FFEE, uint64(worker)+1000)
	var out []dims
	small := func(mode string, maxBatch int) dims {
		return dims{mode, 1 + t.Draw(6), 1 + t.Draw(maxBatch)}
	}
	mid := func(mode string) dims { return dims{mode, 7 + t.Draw(14), 1 + t.Draw(3)} }
	deepIns := []int{32, 31, 30, 20, 32, 24}
	deepDel := []int{31, 30, 20, 31, 16, 25}
	maxB := 4
	if tier == "thorough" {
		maxB = 8
	}
	switch c.focus {
	case "C01":
		out = append(out, small(rollup.Insertion, maxB), dims{rollup.Insertion, deepIns[worker%len(deepIns)], 1 + worker%2})
		if tier == "thorough" {
			out = append(out, mid(rollup.Insertion), small(rollup.Insertion, maxB), dims{rollup.Insertion, 1 + (worker*2)%32, 1}, dims{rollup.Insertion, 2 + (worker*2)%31, 1})
		}
	case "C02":
		out = append(out, small(rollup.Deletion, maxB), dims{rollup.Deletion, deepDel[worker%len(deepDel)], 1 + worker%2})
		if tier == "thorough" {
			out = append(out, mid(rollup.Deletion), small(rollup.Deletion, maxB), dims{rollup.Deletion, 1 + (worker*2)%31, 1}, dims{rollup.Deletion, 2 + (worker*2)%30, 2})
		}
	case "C03":
		// one- and multi-block hash inputs for both modes
		out = append(out, dims{rollup.Insertion, 1 + t.Draw(5), 1 + worker%2*2}, dims{rollup.Deletion, 1 + t.Draw(5), 1 + t.Draw(3)})
		if tier == "thorough" {
			delB := []int{17, 18, 16, 20, 15, 5, 18, 19}
			out = append(out, dims{rollup.Deletion, 2 + t.Draw(3), delB[worker%len(delB)]}, dims{rollup.Insertion, 2 + t.Draw(8), 2 + t.Draw(5)},
				dims{rollup.Insertion, 20 + t.Draw(13), 1}, dims{rollup.Deletion, 20 + t.Draw(12), 1})
		} else {
			// hashed deletion message = 64+4*batch bytes: 124 (ends mid-lane, separator and closing byte in different lanes),
			// 128 (the padding is exactly the block's last lane: separator 0x01 and closing 0x80 share it), 132 (both in the
			// last half lane), 136 (exactly the Keccak rate: a whole padding block), 140; insertion = 68+32*batch bytes: 132
			// at batch 2 (the only insertion size whose padding fits the last lane), and a 2-block insertion
			out = append(out, []dims{{rollup.Deletion, 2, 18}, {rollup.Deletion, 2, 16}, {rollup.Deletion, 2, 17}, {rollup.Insertion, 3, 5},
				{rollup.Deletion, 2, 15}, {rollup.Insertion, 3, 2}, {rollup.Deletion, 2, 19}, {rollup.Deletion, 2, 16}}[worker%8])
		}
	}
	for i := range out {
		// a batch must fit into the tree at all (insertion) / leave room for histories
		for out[i].depth < 31 && (1<<uint(out[i].depth)) < out[i].batch {
			out[i].depth++
		}
	}
	return out
}

func (c *rollupCheck) Init(tier string, worker, nworkers int, seed uint64) error {
	if c.pool != nil && c.poolW == worker {
		return nil
	}
	c.pool, c.poolW = nil, worker
	for _, d := range c.poolFor(tier, worker, nworkers, seed) {
		cc, err := rollup.Compile(d.mode, d.depth, d.batch)
		if err != nil {
			return fmt.Errorf("compile %v: %w", d, err)
		}
		if cc.PublicInputs() != 1 {
			return fmt.Errorf("compiled %s has %d public inputs; the harness assumes the single input hash (C12 decides that property)", cc.Key(), cc.PublicInputs())
		}
		c.pool = append(c.pool, cc)
	}
	return nil
}

func (c *rollupCheck) Real() []string {
	return []string{"prover.BuildR1CSInsertion/BuildR1CSDeletion (the compiled constraint systems of the current tree, incl. Keccak and Poseidon gadgets)", "gnark v0.8.0 R1CS solver and hint machinery", "prover.InsertionMbuCircuit / DeletionMbuCircuit witness assignment"}
}
func (c *rollupCheck) Simulated() []string {
	return []string{"on-chain contract (leaf array, own Poseidon recursion, own Keccak packing) as reference model", "sequencer history (seeded)", "Byzantine prover: witness rewriting and forged hint outputs (fault injector)"}
}
func (c *rollupCheck) Assumptions() []string {
	return []string{"soundness is probed by enumerating hint-forgery strategies and witness faults, not by proving unsatisfiability: every non-hint wire is assumed fixed by one constraint once inputs and hints are fixed", "depths above ~10 are exercised on sparse trees only", "each compiled circuit is checked to have exactly one public input before use"}
}
func (c *rollupCheck) Plan(tier string) engine.Plan {
	if tier == "thorough" {
		return engine.Plan{Runs: 200000, Workers: 8, BudgetSec: 1500, ShrinkSec: 240}
	}
	return engine.Plan{Runs: 100000, Workers: 8, BudgetSec: 75, ShrinkSec: 60}
}

func (c *rollupCheck) Rule() string {
	switch c.focus {
	case "C01":
		return "one run = one history on one contract model: prelude of earlier accepted insertions/deletions (holes), then 2..6 insertion attempts (honest, or an honest batch rewritten by one catalogue fault) evaluated on the real compiled insertion R1CS with honest and forged hints; evaluations = circuit evaluations (solver + independent constraint re-check); non-trivial = the attempt reached the circuit with an oracle verdict; distinct = (depth, batch, state shape, fault kind, oracle verdict/reason, hint strategy)"
	case "C02":
		return "as C01 for the deletion R1CS: prelude populates the tree, then 2..6 deletion attempts (distinct, duplicate, already-empty, padding with garbage, all-padding; or one catalogue fault); distinct = (depth, batch, slot-kind multiset, fault kind, oracle verdict/reason, hint strategy)"
	default:
		return "one run = 3..7 hash-binding attempts on a valid batch of either mode: alternative 256-bit representatives with forged bit hints, single-field perturbations under the original hash, re-ordered / re-sized / little-endian packings, hash of an earlier batch, hash + k*r (must be accepted); distinct = (mode, depth, batch, blocks of the hashed message, fault kind, verdict)"
	}
}

type attemptLog struct {
	Op      string `json:"op"`
	Fault   string `json:"fault"`
	Oracle  string `json:"oracle"`
	Circuit string `json:"circuit"`
	Hints   string `json:"hints,omitempty"`
}

func verdictStr(ok bool) string {
	if ok {
		return "accepted"
	}
	return "rejected"
}

// checkInsertion runs one witness through oracle and circuit, with hint strategies when the
// oracle says invalid. Returns a violation or nil.
func (c *rollupCheck) checkInsertion(x *engine.Ctx, cc *rollup.Circuit, w *rollup.World, bw *oracle.InsertionWitness, fault string, hs []*rollup.HintStrategy, lg *[]attemptLog) (*engine.Violation, bool) {
	valid, reason := oracle.InsertionValid(cc.Depth, bw)
	v := cc.Attempt(rollup.AssignInsertion(bw), rollup.Honest)
	x.S.Eval(1)
	if v.SolverOK != v.EvalOK {
		panic(fmt.Sprintf("solver and independent evaluator disagree on %s (solver ok=%v)", cc.Key(), v.SolverOK))
	}
	x.Log.Addf("prover", "insertion-attempt", "%s fault=%s oracle=%v(%s) circuit=%v", cc.Key(), fault, valid, reason, v.Accepted)
	x.S.Seen(fmt.Sprintf("%s/%s/%s/%v/%s/honest", cc.Key(), w.Shape(), fault, valid, reason))
	al := attemptLog{Op: "insertion " + rollup.DescribeIns(bw), Fault: fault, Oracle: verdictStr(valid) + " " + reason, Circuit: verdictStr(v.Accepted)}
	defer func() { *lg = append(*lg, al) }()
	pfx := c.id
	if valid && !v.Accepted {
		return engine.Violatef(pfx+"/valid-insertion-rejected", "%s fault=%s %s: oracle says valid, circuit rejects (%s)", cc.Key(), fault, rollup.DescribeIns(bw), firstLine(v.Err)), false
	}
	if valid && x.T.Chance(1, 6) {
		if pv := c.proverPath(x, cc, bw, nil); pv != nil {
			return pv, false
		}
	}
	if !valid && v.Accepted {
		return engine.Violatef(pfx+"/invalid-insertion-accepted/"+reason, "%s fault=%s %s: oracle says invalid (%s), circuit accepts with honest hints", cc.Key(), fault, rollup.DescribeIns(bw), reason), false
	}
	if !valid {
		for _, h := range hs {
			hv := cc.Attempt(rollup.AssignInsertion(bw), h)
			x.S.Eval(1)
			if h.Fired.Load() > 0 {
				x.S.Count("fault:hint-forgery/" + h.Name)
			} else {
				x.S.Count("hint-strategy-had-nothing-to-forge/" + h.Name)
			}
			x.S.Seen(fmt.Sprintf("%s/%s/%v/%s/%s", cc.Key(), fault, valid, reason, h.Name))
			x.Log.Addf("prover", "forged-hints", "%s accepted=%v", h.Name, hv.Accepted)
			al.Hints += h.Name + ":" + verdictStr(hv.Accepted) + " "
			if hv.EvalOK && hv.SolverOK {
				return engine.Violatef(pfx+"/invalid-insertion-accepted-with-forged-hints/"+reason, "%s fault=%s hints=%s %s: a wire vector satisfying every constraint exists for an invalid batch (%s)", cc.Key(), fault, h.Name, rollup.DescribeIns(bw), reason), false
			}
		}
	}
	return nil, valid
}

func (c *rollupCheck) checkDeletion(x *engine.Ctx, cc *rollup.Circuit, w *rollup.World, bw *oracle.DeletionWitness, fault, kinds string, hs []*rollup.HintStrategy, lg *[]attemptLog) (*engine.Violation, bool) {
	valid, reason := oracle.DeletionValid(cc.Depth, bw)
	v := cc.Attempt(rollup.AssignDeletion(bw), rollup.Honest)
	x.S.Eval(1)
	if v.SolverOK != v.EvalOK {
		panic(fmt.Sprintf("solver and independent evaluator disagree on %s (solver ok=%v)", cc.Key(), v.SolverOK))
	}
	x.Log.Addf("prover", "deletion-attempt", "%s fault=%s kinds=%s oracle=%v(%s) circuit=%v", cc.Key(), fault, kinds, valid, reason, v.Accepted)
	x.S.Seen(fmt.Sprintf("%s/%s/%s/%v/%s/honest", cc.Key(), kinds, fault, valid, reason))
	al := attemptLog{Op: "deletion " + rollup.DescribeDel(bw) + " slots=" + kinds, Fault: fault, Oracle: verdictStr(valid) + " " + reason, Circuit: verdictStr(v.Accepted)}
	defer func() { *lg = append(*lg, al) }()
	pfx := c.id
	if valid && !v.Accepted {
		return engine.Violatef(pfx+"/valid-deletion-rejected", "%s fault=%s slots=%s %s: oracle says valid, circuit rejects (%s)", cc.Key(), fault, kinds, rollup.DescribeDel(bw), firstLine(v.Err)), false
	}
	if valid && x.T.Chance(1, 6) {
		if pv := c.proverPath(x, cc, nil, bw); pv != nil {
			return pv, false
		}
	}
	if !valid && v.Accepted {
		return engine.Violatef(pfx+"/invalid-deletion-accepted/"+reason, "%s fault=%s slots=%s %s: oracle says invalid (%s), circuit accepts with honest hints", cc.Key(), fault, kinds, rollup.DescribeDel(bw), reason), false
	}
	if !valid {
		for _, h := range hs {
			hv := cc.Attempt(rollup.AssignDeletion(bw), h)
			x.S.Eval(1)
			if h.Fired.Load() > 0 {
				x.S.Count("fault:hint-forgery/" + h.Name)
			} else {
				x.S.Count("hint-strategy-had-nothing-to-forge/" + h.Name)
			}
			x.S.Seen(fmt.Sprintf("%s/%s/%v/%s/%s", cc.Key(), fault, valid, reason, h.Name))
			x.Log.Addf("prover", "forged-hints", "%s accepted=%v", h.Name, hv.Accepted)
			al.Hints += h.Name + ":" + verdictStr(hv.Accepted) + " "
			if hv.EvalOK && hv.SolverOK {
				return engine.Violatef(pfx+"/invalid-deletion-accepted-with-forged-hints/"+reason, "%s fault=%s hints=%s %s: a wire vector satisfying every constraint exists for an invalid batch (%s)", cc.Key(), fault, h.Name, rollup.DescribeDel(bw), reason), false
			}
		}
	}
	return nil, valid
}

// proverPath hands an oracle-valid batch, as typed parameters, to the repository's own prover entry point
// (shape validation, witness construction, solver, Groth16 prover) on gnark DummySetup keys for the same
// compiled system: the property is observed at Prove*'s error as well as at the constraint system, and a
// batch the circuit accepts must not be refused on the way to it - at every depth, the deepest included.
func (c *rollupCheck) proverPath(x *engine.Ctx, cc *rollup.Circuit, iw *oracle.InsertionWitness, dw *oracle.DeletionWitness) *engine.Violation {
	if c.dummy == nil {
		c.dummy = map[string]*gtier.System{}
	}
	ds := c.dummy[cc.Key()]
	if ds == nil {
		var err error
		if ds, err = gtier.DummySystem(cc.Mode, cc.Depth, cc.Batch, cc.Raw()); err != nil {
			panic("DummySetup: " + err.Error())
		}
		c.dummy[cc.Key()] = ds
	}
	err := ds.ProveErr(iw, dw)
	x.S.Eval(1)
	x.S.Count("prover_path_calls")
	x.Log.Addf("prover", "prover-path", "%s err=%v", cc.Key(), err != nil)
	if err != nil {
		what := ""
		if iw != nil {
			what = rollup.DescribeIns(iw)
		} else {
			what = rollup.DescribeDel(dw)
		}
		return engine.Violatef(c.id+"/valid-batch-refused-by-prover", "%s %s: oracle says valid and the compiled circuit accepts, but Prove%s returns an error: %s", cc.Key(), what, strings.Title(cc.Mode), firstLine(err.Error()))
	}
	return nil
}

func firstLine(s string) string {
	if i := strings.IndexByte(s, '\n'); i >= 0 {
		s = s[:i]
	}
	if len(s) > 160 {
		s = s[:160]
	}
	return s
}

func pickHints(t *tape.Tape, all []*rollup.HintStrategy, max int) []*rollup.HintStrategy {
	if len(all) <= max {
		return all
	}
	var out []*rollup.HintStrategy
	start := t.Pick(len(all))
	for i := 0; i < max; i++ {
		out = append(out, all[(start+i)%len(all)])
	}
	return out
}

func (c *rollupCheck) pickCircuit(t *tape.Tape, mode string) *rollup.Circuit {
	var cand []*rollup.Circuit
	for _, cc := range c.pool {
		if mode == "" || cc.Mode == mode {
			cand = append(cand, cc)
		}
	}
	return cand[t.Pick(len(cand))]
}

func prelude(t *tape.Tape, w *rollup.World, wantPopulated bool) {
	rounds := t.Range(0, 3)
	if wantPopulated && rounds == 0 {
		rounds = 1
	}
	for i := 0; i < rounds; i++ {
		k := t.Range(1, 6)
		if w.Depth <= 3 && t.Chance(1, 3) {
			k = int(w.Size) // fill small trees completely now and then
		}
		w.Populate(t, k)
		w.Snapshot()
		if t.Chance(1, 2) {
			w.Punch(t, t.Range(1, 3))
			w.Snapshot()
		}
	}
}

// ---------------------------------------------------------------------------------------

type C01 struct{ rollupCheck }

func init() {
	register(&C01{rollupCheck{base: base{id: "C01", level: "exploration"}, focus: "C01"}})
	register(&C02{rollupCheck{base: base{id: "C02", level: "exploration"}, focus: "C02"}})
	register(&C03{rollupCheck{base: base{id: "C03", level: "exploration"}, focus: "C03"}})
}

func (c *C01) Run(x *engine.Ctx) *engine.Violation {
	t := x.T
	cc := c.pickCircuit(t, rollup.Insertion)
	w := rollup.NewWorld(cc.Depth)
	prelude(t, w, false)
	x.Log.Addf("world", "prelude", "%s leaves=%d next=%d shape=%s", cc.Key(), len(w.Model.Leaves), w.Next, w.Shape())
	var lg []attemptLog
	n := t.Range(2, 6)
	for a := 0; a < n; a++ {
		comms := make([]*big.Int, cc.Batch)
		for i := range comms {
			comms[i] = rollup.RandomCommitment(t)
			if t.Chance(1, 12) {
				comms[i] = big.NewInt(0) // writing the empty value is a legal insertion
			}
		}
		start, ok := w.FreeStart(t, cc.Batch)
		if !ok {
			// no room: the tree is full or fragmented; make room the way the contract would
			w.Punch(t, cc.Batch+1)
			w.Snapshot()
			if start, ok = w.FreeStart(t, cc.Batch); !ok {
				x.S.Count("probe:no_free_run_of_leaves")
				// still exercise the circuit: an insertion onto occupied leaves
				start = 0
			}
		}
		var hw *oracle.InsertionWitness
		if ok {
			hw = rollup.HonestInsertion(w.Model, start, comms)
		} else {
			hw = rollup.HonestInsertion(oracle.NewTree(cc.Depth), 0, comms) // valid for the empty tree, stale here
		}
		fi := 0
		if t.Chance(2, 3) {
			fi = 1 + t.Pick(len(rollup.InsertionFaults)-1)
		}
		f := rollup.InsertionFaults[fi]
		bw := hw
		if f.Apply != nil {
			if b := f.Apply(t, w, hw); b != nil {
				bw = b
				x.S.Count("fault:" + f.Name)
			} else {
				f = rollup.InsertionFaults[0]
			}
		}
		var hs []*rollup.HintStrategy
		if f.Hints != nil {
			hs = pickHints(t, f.Hints(w, bw), 2)
		} else if t.Chance(1, 4) {
			hs = []*rollup.HintStrategy{rollup.NonBoolean(cc.Depth)}
		}
		viol, valid := c.checkInsertion(x, cc, w, bw, f.Name, hs, &lg)
		if viol != nil {
			return viol
		}
		if start+uint64(cc.Batch) == w.Size && valid && f.Name == "none" {
			x.S.Count("probe:batch_ends_at_last_leaf")
		}
		if cc.Depth == 32 {
			x.S.Count("probe:depth_32_attempt")
		}
		// contract step: a circuit-valid batch whose pre-root is the contract's root is applied;
		// the contract's own semantics (leaves empty, dense root after writing) must agree.
		if valid && oracle.Mod(bw.Pre).Cmp(w.Model.Root()) == 0 {
			s := oracle.Mod(bw.Start).Uint64()
			st := w.Model.Clone()
			for i, cm := range bw.Comms {
				if st.Get(s+uint64(i)).Sign() != 0 {
					return engine.Violatef("C01/accepted-insertion-overwrites-occupied-leaf", "%s: batch accepted against the contract's root writes leaf %d which holds a value", cc.Key(), s+uint64(i))
				}
				st.Set(s+uint64(i), oracle.Mod(cm))
			}
			if st.RootFresh().Cmp(oracle.Mod(bw.Post)) != 0 {
				return engine.Violatef("C01/accepted-insertion-post-root-not-dense-root", "%s: post-root of an accepted batch differs from the root recomputed from the contract's leaves", cc.Key())
			}
			w.Snapshot()
			w.Model = st
			for i := range bw.Comms {
				w.Written = append(w.Written, s+uint64(i))
				if s+uint64(i) >= w.Next {
					w.Next = s + uint64(i) + 1
				}
			}
			x.S.Count("probe:state_advanced")
			x.Log.Addf("contract", "applied", "root=%s", w.Model.Root().Text(16))
		}
	}
	if x.S.WantSample() {
		x.S.Sample(map[string]any{"circuit": cc.Key(), "attempts": lg})
	}
	return nil
}

// ---------------------------------------------------------------------------------------

type C02 struct{ rollupCheck }

func (c *C02) Run(x *engine.Ctx) *engine.Violation {
	t := x.T
	cc := c.pickCircuit(t, rollup.Deletion)
	w := rollup.NewWorld(cc.Depth)
	prelude(t, w, true)
	x.Log.Addf("world", "prelude", "%s leaves=%d next=%d shape=%s", cc.Key(), len(w.Model.Leaves), w.Next, w.Shape())
	var lg []attemptLog
	n := t.Range(2, 6)
	for a := 0; a < n; a++ {
		plan := w.PlanDeletion(t, cc.Batch)
		hw := rollup.HonestDeletion(w.Model, plan.Indices, rollup.GarbageFiller(t, cc.Depth))
		kinds := strings.Join(plan.Kinds, "+")
		for _, k := range plan.Kinds {
			x.S.Count("probe:slot_" + k)
		}
		fi := 0
		if t.Chance(3, 5) {
			fi = 1 + t.Pick(len(rollup.DeletionFaults)-1)
		}
		f := rollup.DeletionFaults[fi]
		bw := hw
		if f.Apply != nil {
			if b := f.Apply(t, w, hw); b != nil {
				bw = b
				x.S.Count("fault:" + f.Name)
			} else {
				f = rollup.DeletionFaults[0]
			}
		}
		var hs []*rollup.HintStrategy
		if f.Hints != nil {
			hs = pickHints(t, f.Hints(w, bw), 2)
		} else if t.Chance(1, 4) {
			hs = []*rollup.HintStrategy{rollup.InvZeroWrong()}
		}
		viol, valid := c.checkDeletion(x, cc, w, bw, f.Name, kinds, hs, &lg)
		if viol != nil {
			return viol
		}
		if valid && oracle.Mod(bw.Pre).Cmp(w.Model.Root()) == 0 {
			// contract semantics: real slots must name the leaf's current value; padding is a no-op
			st := w.Model.Clone()
			for i, ixb := range bw.Indices {
				ix := oracle.Mod(ixb).Uint64()
				if ix >= w.Size {
					continue
				}
				if st.Get(ix).Cmp(oracle.Mod(bw.Items[i])) != 0 {
					return engine.Violatef("C02/accepted-deletion-names-wrong-leaf-value", "%s: slot %d index %d", cc.Key(), i, ix)
				}
				st.Set(ix, big.NewInt(0))
			}
			if st.RootFresh().Cmp(oracle.Mod(bw.Post)) != 0 {
				return engine.Violatef("C02/accepted-deletion-post-root-not-dense-root", "%s: post-root of an accepted batch differs from the root recomputed from the contract's leaves", cc.Key())
			}
			w.Snapshot()
			w.Model = st
			x.S.Count("probe:state_advanced")
			if oracle.Mod(bw.Pre).Cmp(oracle.Mod(bw.Post)) == 0 {
				x.S.Count("probe:accepted_batch_left_root_unchanged")
			}
			x.Log.Addf("contract", "applied", "root=%s", w.Model.Root().Text(16))
		}
		if len(w.Model.Leaves) == 0 && t.Chance(1, 2) {
			w.Populate(t, t.Range(1, 4))
			w.Snapshot()
		}
	}
	if x.S.WantSample() {
		x.S.Sample(map[string]any{"circuit": cc.Key(), "attempts": lg})
	}
	return nil
}
