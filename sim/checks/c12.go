package checks

import (
	"bytes"
	"crypto/sha256"
	"encoding/hex"
	"fmt"
	"math/big"
	"os"
	"path/filepath"
	"sort"
	"strconv"
	"strings"
	"sync"

	"github.com/consensys/gnark-crypto/ecc"
	"github.com/consensys/gnark-crypto/ecc/bn254/fr"
	"github.com/consensys/gnark/constraint"
	"github.com/consensys/gnark/frontend"

	"verifsim/engine"
	"verifsim/gtier"
	"verifsim/ops"
	"verifsim/rollup"

	"worldcoin/gnark-mbu/prover"
)

// C12: three construction paths (setup, R1CS export, key import), repeated in-process and in
// fresh processes with tape-chosen GOMAXPROCS, must give the byte-identical constraint
// system; one public input; deletion deeper than 31 refused everywhere.
type C12 struct {
	base
	guardSwept       bool
	guardPK, guardVK []byte // genuine, loadable Groth16 keys (of a small deletion system) for the import-path guard probe
}

func init() { register(&C12{base: base{id: "C12", level: "exploration"}}) }

func (c *C12) Rule() string {
	return "one run = one (mode, depth, batch): node A runs the setup path (seeded keys) and exports pk/vk files; node B runs the import path with A's keys; node C runs the R1CS path twice in-process and as 2..3 fresh `gnark-mbu r1cs` processes with tape-chosen GOMAXPROCS in {1,2,4,16}; SHA-256 of the serialised constraint system must agree across all of them; B proves a fresh valid batch and A's verifying key accepts; the public witness has exactly one element, the input hash; on some runs deletion at a depth above 31 (32..34, or one of 24 farther depths up to 4096; once per worker the R1CS path at every depth 32..80) must be refused on all three library paths and by the CLI (non-zero exit, no keys file). evaluations = constraint systems hashed; non-trivial = every configuration (each compares >= 5 independently produced systems); distinct = (mode, depth, batch, path/process/GOMAXPROCS)"
}
func (c *C12) Assumptions() []string {
	return []string{"there is no seam behind which the Go runtime's map-iteration order or the OS scheduling of separate processes could be put: this nondeterminism is SAMPLED (>= 5 compilations over >= 3 processes per configuration), not controlled; a reported difference replays by re-running the configuration, which reproduces the class, not necessarily the same two hashes", "the harness compiles with go1.26.8, the CLI processes with the repository's toolchain; their serialisations are compared with each other as well"}
}
func (c *C12) Real() []string {
	return []string{"prover.BuildR1CSInsertion/Deletion, SetupInsertion/Deletion, ImportInsertionSetup/ImportDeletionSetup", "`gnark-mbu r1cs` and `gnark-mbu setup` as fresh OS processes", "gnark frontend.Compile / constraint-system serialisation"}
}
func (c *C12) Simulated() []string {
	return []string{"nodes A/B/C (objects and processes), configuration and GOMAXPROCS chosen by the tape", "crypto/rand (seeded) for A's keys"}
}
func (c *C12) Plan(tier string) engine.Plan {
	if tier == "thorough" {
		return engine.Plan{Runs: 400, Workers: 6, BudgetSec: 1500, ShrinkSec: 30}
	}
	return engine.Plan{Runs: 400, Workers: 6, BudgetSec: 70, ShrinkSec: 20}
}

// differ reports "independently produced constraint systems are not byte-identical". One class
// for every pairing: when compilation is nondeterministic, which pair differs changes from run
// to run, so the violation is flagged uncontrolled (its replay re-runs the configuration and
// reproduces the class, not the same two hashes; DESIGN 6.C12).
func differ(key, what string, hashes map[string]string) *engine.Violation {
	ks := make([]string, 0, len(hashes))
	for k := range hashes {
		ks = append(ks, k)
	}
	sort.Strings(ks)
	var sb strings.Builder
	for _, k := range ks {
		fmt.Fprintf(&sb, " %s=%s", k, hashes[k][:12])
	}
	v := engine.Violatef("C12/constraint-systems-differ", "%s: %s;%s", key, what, sb.String())
	v.Uncontrolled = true
	return v
}

func csHash(cs constraint.ConstraintSystem) string {
	var buf bytes.Buffer
	if _, err := cs.WriteTo(&buf); err != nil {
		panic(err)
	}
	h := sha256.Sum256(buf.Bytes())
	return hex.EncodeToString(h[:])
}

func buildCS(mode string, depth, batch int) (constraint.ConstraintSystem, error) {
	if mode == rollup.Insertion {
		return prover.BuildR1CSInsertion(uint32(depth), uint32(batch))
	}
	return prover.BuildR1CSDeletion(uint32(depth), uint32(batch))
}

func (c *C12) Run(x *engine.Ctx) *engine.Violation {
	t := x.T
	mode := rollup.Insertion
	if t.Chance(1, 2) {
		mode = rollup.Deletion
	}
	if x.Run%4 == 3 || t.Chance(1, 8) {
		return c.depthGuard(x)
	}
	if t.Chance(1, 5) {
		return c.historyPair(x, mode)
	}
	if t.Chance(1, 5) {
		return c.overlappingBuilds(x)
	}
	depth := 1 + t.Draw(8)
	if t.Chance(1, 5) {
		depth = 9 + t.Draw(23)
	}
	if mode == rollup.Deletion && depth > 31 {
		depth = 31
	}
	batch := 1 + t.Draw(4)
	if t.Chance(1, 4) {
		batch = 5 + t.Draw(6) // larger batches: a field that only matters above some size
	}
	large := t.Chance(1, 6)
	if large {
		// production-like dimensions: anything keyed on the size of the circuit (a threshold in compile
		// options, a narrower integer type, chunking) only shows here
		depth, batch = 16+t.Draw(16), 8+t.Draw(16)
		if mode == rollup.Deletion && depth > 31 {
			depth = 31
		}
		x.S.Count("probe:large_dimensions")
	}
	if batch == depth {
		batch++
	}
	for mode == rollup.Insertion && (1<<uint(depth)) < batch {
		depth++ // an insertion batch must fit into the tree for the prove/verify part
	}
	if batch == depth {
		depth++
	}
	key := fmt.Sprintf("%s/d%d/b%d", mode, depth, batch)
	dir, err := ops.Scratch(fmt.Sprintf("c12-%d-%d", os.Getpid(), x.Run))
	if err != nil {
		panic(err)
	}
	defer os.RemoveAll(dir)
	hashes := map[string]string{}
	note := func(who, h string) {
		hashes[who] = h
		x.S.Eval(1)
		x.S.Seen(key + "/" + who)
		x.Log.Addf(who, "constraint-system", "%s sha256=%s", key, h[:16])
	}
	// node C, library R1CS path, twice in this process
	var firstCS constraint.ConstraintSystem
	for i := 0; i < 2; i++ {
		cs, err := buildCS(mode, depth, batch)
		if err != nil {
			return engine.Violatef("C12/r1cs-path-fails", "%s: %v", key, err)
		}
		if firstCS == nil {
			firstCS = cs
		}
		note(fmt.Sprintf("C/library-r1cs#%d", i), csHash(cs))
	}
	ref := hashes["C/library-r1cs#0"]
	// exactly one public input, and it is the input hash
	if n := firstCS.GetNbPublicVariables(); n != 2 { // the constant-one wire plus one
		return engine.Violatef("C12/not-exactly-one-public-input", "%s: %d public variables besides the constant wire", key, n-1)
	}
	if v := c.publicIsHash(mode, depth, batch); v != nil {
		return v
	}
	// fresh processes: gnark-mbu r1cs under different GOMAXPROCS
	np := 2 + t.Draw(2)
	var cliRef string
	for i := 0; i < np; i++ {
		gmp := []int{1, 2, 4, 16}[t.Pick(4)]
		out := filepath.Join(dir, fmt.Sprintf("r%d.r1cs", i))
		r := ops.Run(ops.Cmd{Args: []string{"r1cs", "--mode", mode, "--tree-depth", strconv.Itoa(depth), "--batch-size", strconv.Itoa(batch), "--output", out}, GoMaxProcs: gmp})
		if r.Exit != 0 {
			return engine.Violatef("C12/cli-r1cs-fails", "%s GOMAXPROCS=%d: %s", key, gmp, ops.Describe(r))
		}
		h, err := ops.FileSHA256(out)
		if err != nil {
			return engine.Violatef("C12/cli-r1cs-fails", "%s: no output file: %v", key, err)
		}
		os.Remove(out)
		who := fmt.Sprintf("C/process-r1cs#%d/GOMAXPROCS=%d", i, gmp)
		note(who, h)
		x.S.Count("fault:process/GOMAXPROCS=" + strconv.Itoa(gmp))
		if cliRef == "" {
			cliRef = h
		}
		if h != cliRef {
			return differ(key, "two `gnark-mbu r1cs` processes wrote different systems", hashes)
		}
	}
	if cliRef != ref {
		return differ(key, "`gnark-mbu r1cs` and BuildR1CS in the harness process disagree", hashes)
	}
	if hashes["C/library-r1cs#1"] != ref {
		return differ(key, "two compilations in one process differ", hashes)
	}
	// node A: setup path; node B: import path with A's keys (cost: one Groth16 setup)
	if depth <= 10 || large || t.Chance(1, 3) {
		a, err := gtier.Setup(mode, depth, batch, x.Run)
		if err != nil {
			return engine.Violatef("C12/setup-path-fails", "%s: %v", key, err)
		}
		note("A/setup", csHash(a.PS.ConstraintSystem))
		if hashes["A/setup"] != ref {
			return differ(key, "the setup path and the r1cs path disagree", hashes)
		}
		pkPath, vkPath := filepath.Join(dir, "pk"), filepath.Join(dir, "vk")
		writeKey := func(p string, w func(*os.File) error) {
			f, err := os.Create(p)
			if err != nil {
				panic(err)
			}
			defer f.Close()
			if err := w(f); err != nil {
				panic(err)
			}
		}
		writeKey(pkPath, func(f *os.File) error { _, err := a.PS.ProvingKey.WriteTo(f); return err })
		writeKey(vkPath, func(f *os.File) error { _, err := a.PS.VerifyingKey.WriteTo(f); return err })
		var bps *prover.ProvingSystem
		if mode == rollup.Insertion {
			bps, err = prover.ImportInsertionSetup(uint32(depth), uint32(batch), pkPath, vkPath)
		} else {
			bps, err = prover.ImportDeletionSetup(uint32(depth), uint32(batch), pkPath, vkPath)
		}
		if err != nil {
			return engine.Violatef("C12/import-path-fails", "%s: %v", key, err)
		}
		note("B/import", csHash(bps.ConstraintSystem))
		if hashes["B/import"] != ref {
			return differ(key, "the import path and the r1cs path disagree", hashes)
		}
		if bps.TreeDepth != uint32(depth) || bps.BatchSize != uint32(batch) {
			return engine.Violatef("C12/import-path-swaps-dimensions", "%s: imported system reports depth %d batch %d", key, bps.TreeDepth, bps.BatchSize)
		}
		// keys made elsewhere stay valid: B proves with A's keys, A's verifying key accepts
		b := &gtier.System{Mode: mode, Depth: depth, Batch: batch, PS: bps}
		p, h, err := proveValid(t, b)
		if err != nil {
			return engine.Violatef("C12/imported-keys-cannot-prove", "%s: %v", key, err)
		}
		if err := gtier.VerifyWithVK(a, p, h); err != nil {
			return engine.Violatef("C12/proof-with-imported-keys-rejected", "%s: %v", key, err)
		}
		x.S.Count("probe:setup_and_import_paths_compared")
		// node D: the CLI's import-setup with the same key files must write a keys file holding the very same system
		if t.Chance(1, 2) {
			out := filepath.Join(dir, "imported.ps")
			r := ops.Run(ops.Cmd{Args: []string{"import-setup", "--mode", mode, "--tree-depth", strconv.Itoa(depth), "--batch-size", strconv.Itoa(batch), "--pk", pkPath, "--vk", vkPath, "--output", out}, GoMaxProcs: []int{1, 2, 4, 16}[t.Pick(4)]})
			if r.Exit != 0 {
				return engine.Violatef("C12/cli-import-setup-fails", "%s: %s", key, ops.Describe(r))
			}
			dps, err := prover.ReadSystemFromFile(out)
			os.Remove(out)
			if err != nil {
				// whether a written keys file loads back is C11's and C15's business, not this property's
				x.S.Count("probe:cli_import_setup_output_did_not_load")
				return nil
			}
			note("D/process-import-setup", csHash(dps.ConstraintSystem))
			if hashes["D/process-import-setup"] != ref {
				return differ(key, "`gnark-mbu import-setup` and the r1cs path disagree", hashes)
			}
			if dps.TreeDepth != uint32(depth) || dps.BatchSize != uint32(batch) {
				// the constraint system is the right one; a wrong header is the file layer's defect (C11)
				x.S.Count("probe:cli_import_setup_header_differs")
				return nil
			}
			d := &gtier.System{Mode: mode, Depth: depth, Batch: batch, PS: dps}
			p2, h2, err := proveValid(t, d)
			if err != nil {
				return engine.Violatef("C12/imported-keys-cannot-prove", "%s (CLI import-setup): %v", key, err)
			}
			if err := gtier.VerifyWithVK(a, p2, h2); err != nil {
				return engine.Violatef("C12/proof-with-imported-keys-rejected", "%s (CLI import-setup): %v", key, err)
			}
			x.S.Count("probe:cli_import_setup_compared")
		}
	}
	if x.S.WantSample() {
		x.S.Sample(map[string]any{"configuration": key, "sha256_by_node": hashes})
	}
	return nil
}

// publicIsHash: the public part of the witness is exactly the input hash; no other assigned
// field changes it.
// historyPair: "every run" includes a build that comes second in a process. Dimensions A and then B are
// compiled in this process, B chosen so that a lossy summary of (depth, batch) - their decimal
// concatenation, sum, product, or the pair in the other order - coincides with A's (the ways a
// memoised or lazily initialised table keyed too coarsely would confuse them); both must equal what a
// fresh `gnark-mbu r1cs` process writes for the same dimensions.
func (c *C12) historyPair(x *engine.Ctx, mode string) *engine.Violation {
	t := x.T
	d, a, b := 1+t.Draw(3), 1+t.Draw(2), 1+t.Draw(9)
	var A, B [2]int
	kind := ""
	switch t.Draw(4) {
	case 0:
		kind, A, B = "same-decimal-concatenation", [2]int{d, 10*a + b}, [2]int{10*d + a, b}
	case 1:
		kind, A, B = "swapped", [2]int{d + 1, d + 1 + b}, [2]int{d + 1 + b, d + 1}
	case 2:
		kind, A, B = "same-sum", [2]int{d + 1, b + 1}, [2]int{d + 2, b}
	default:
		kind, A, B = "same-product", [2]int{d, 2 * b}, [2]int{2 * d, b}
	}
	if t.Chance(1, 2) {
		A, B = B, A
	}
	for _, p := range []*[2]int{&A, &B} {
		if mode == rollup.Deletion && p[0] > 31 {
			p[0] = 31
		}
	}
	x.S.Count("probe:history_pair/" + kind)
	dir, err := ops.Scratch(fmt.Sprintf("c12h-%d-%d", os.Getpid(), x.Run))
	if err != nil {
		panic(err)
	}
	defer os.RemoveAll(dir)
	for i, p := range [][2]int{A, B} {
		key := fmt.Sprintf("%s/d%d/b%d", mode, p[0], p[1])
		cs, err := buildCS(mode, p[0], p[1])
		if err != nil {
			return engine.Violatef("C12/r1cs-path-fails", "%s: %v", key, err)
		}
		in := csHash(cs)
		out := filepath.Join(dir, fmt.Sprintf("h%d.r1cs", i))
		gmp := []int{1, 2, 4, 16}[t.Pick(4)]
		r := ops.Run(ops.Cmd{Args: []string{"r1cs", "--mode", mode, "--tree-depth", strconv.Itoa(p[0]), "--batch-size", strconv.Itoa(p[1]), "--output", out}, GoMaxProcs: gmp})
		if r.Exit != 0 {
			return engine.Violatef("C12/cli-r1cs-fails", "%s GOMAXPROCS=%d: %s", key, gmp, ops.Describe(r))
		}
		fresh, err := ops.FileSHA256(out)
		if err != nil {
			return engine.Violatef("C12/cli-r1cs-fails", "%s: no output file: %v", key, err)
		}
		os.Remove(out)
		x.S.Eval(2)
		x.S.Seen(fmt.Sprintf("%s/history-%s#%d", key, kind, i))
		x.Log.Addf("C", "constraint-system", "%s history=%s#%d in-process=%s fresh=%s", key, kind, i, in[:16], fresh[:16])
		if in != fresh {
			what := "first build of the pair"
			if i == 1 {
				what = fmt.Sprintf("built in this process right after %s/d%d/b%d (%s)", mode, A[0], A[1], kind)
			}
			return differ(key, "the system compiled in the harness process ("+what+") differs from the one a fresh `gnark-mbu r1cs` process writes", map[string]string{"C/library-r1cs-in-process": in, "C/process-r1cs-fresh": fresh})
		}
	}
	return nil
}

func (c *C12) publicIsHash(mode string, depth, batch int) *engine.Violation {
	mk := func(hash, other int64) fr.Vector {
		var a frontend.Circuit
		proofs := make([][]frontend.Variable, batch)
		for i := range proofs {
			proofs[i] = make([]frontend.Variable, depth)
			for j := range proofs[i] {
				proofs[i][j] = big.NewInt(other + 3)
			}
		}
		ids := make([]frontend.Variable, batch)
		idx := make([]frontend.Variable, batch)
		for i := range ids {
			ids[i] = big.NewInt(other + 5)
			idx[i] = big.NewInt(other % 2)
		}
		if mode == rollup.Insertion {
			a = &prover.InsertionMbuCircuit{InputHash: big.NewInt(hash), StartIndex: big.NewInt(other), PreRoot: big.NewInt(other + 1), PostRoot: big.NewInt(other + 2), IdComms: ids, MerkleProofs: proofs}
		} else {
			a = &prover.DeletionMbuCircuit{InputHash: big.NewInt(hash), DeletionIndices: idx, PreRoot: big.NewInt(other + 1), PostRoot: big.NewInt(other + 2), IdComms: ids, MerkleProofs: proofs}
		}
		w, err := frontend.NewWitness(a, ecc.BN254.ScalarField(), frontend.PublicOnly())
		if err != nil {
			panic(err)
		}
		return w.Vector().(fr.Vector)
	}
	p1, p2, p3 := mk(1234, 10), mk(1234, 77), mk(999, 10)
	if len(p1) != 1 {
		return engine.Violatef("C12/not-exactly-one-public-input", "%s d%d b%d: public witness has %d elements", mode, depth, batch, len(p1))
	}
	var want fr.Element
	want.SetInt64(1234)
	if !p1[0].Equal(&want) || !p1[0].Equal(&p2[0]) || p1[0].Equal(&p3[0]) {
		return engine.Violatef("C12/public-input-is-not-the-input-hash", "%s d%d b%d: the public witness element does not follow the input hash alone", mode, depth, batch)
	}
	return nil
}

// depthGuard: deletion at depth 32 is refused on every path.
func (c *C12) depthGuard(x *engine.Ctx) *engine.Violation {
	t := x.T
	batch := 1 + t.Draw(3)
	depth := 32 + t.Draw(3)
	// "deeper than 31" is every depth above 31, not only the next few: the whole range a uint32 flag can carry
	// that is still cheap to allocate for (the circuit struct holds depth x batch variables before Define runs)
	far := []int{35, 40, 47, 48, 62, 63, 64, 65, 66, 95, 96, 100, 127, 128, 129, 255, 256, 257, 511, 512, 1000, 1023, 1024, 4096}
	if t.Chance(1, 2) {
		depth = far[t.Pick(len(far))]
	}
	if !c.guardSwept {
		// once per worker: the R1CS path at every depth 32..80 and at the far ones (a refusal is immediate)
		c.guardSwept = true
		var all []int
		for d := 32; d <= 80; d++ {
			all = append(all, d)
		}
		all = append(all, far...)
		for _, d := range all {
			x.S.Eval(1)
			x.S.Seen(fmt.Sprintf("guard-sweep/d%d", d))
			if _, err := prover.BuildR1CSDeletion(uint32(d), 1); err == nil {
				return engine.Violatef("C12/deep-deletion-circuit-not-refused/r1cs-path", "BuildR1CSDeletion(%d,1) succeeded", d)
			}
		}
		x.S.Count("probe:depth_guard_sweep_32_to_80_and_far")
	}
	x.S.Count("probe:depth_guard_checked")
	x.S.Seen(fmt.Sprintf("guard/d%d/b%d", depth, batch))
	x.S.Eval(3)
	if _, err := prover.BuildR1CSDeletion(uint32(depth), uint32(batch)); err == nil {
		return engine.Violatef("C12/deep-deletion-circuit-not-refused/r1cs-path", "BuildR1CSDeletion(%d,%d) succeeded", depth, batch)
	}
	if ps, err := prover.SetupDeletion(uint32(depth), uint32(batch)); err == nil || ps != nil {
		return engine.Violatef("C12/deep-deletion-circuit-not-refused/setup-path", "SetupDeletion(%d,%d) succeeded", depth, batch)
	}
	dir, err := ops.Scratch(fmt.Sprintf("c12g-%d-%d", os.Getpid(), x.Run))
	if err != nil {
		panic(err)
	}
	defer os.RemoveAll(dir)
	os.WriteFile(filepath.Join(dir, "pk"), []byte("x"), 0o644)
	os.WriteFile(filepath.Join(dir, "vk"), []byte("x"), 0o644)
	if ps, err := prover.ImportDeletionSetup(uint32(depth), uint32(batch), filepath.Join(dir, "pk"), filepath.Join(dir, "vk")); err == nil || ps != nil {
		return engine.Violatef("C12/deep-deletion-circuit-not-refused/import-path", "ImportDeletionSetup(%d,%d) succeeded", depth, batch)
	}
	// The same on the import path with key files that actually LOAD (keys made elsewhere, for other dimensions):
	// with unreadable keys a refusal proves nothing about the depth guard - the key loader refuses anyway.
	if t.Chance(1, 2) {
		if c.guardPK == nil {
			g, err := gtier.Setup(rollup.Deletion, 2, 1, 0)
			if err != nil {
				panic(err)
			}
			var pk, vk bytes.Buffer
			if _, err := g.PS.ProvingKey.WriteTo(&pk); err != nil {
				panic(err)
			}
			if _, err := g.PS.VerifyingKey.WriteTo(&vk); err != nil {
				panic(err)
			}
			c.guardPK, c.guardVK = pk.Bytes(), vk.Bytes()
		}
		pk2, vk2 := filepath.Join(dir, "pk2"), filepath.Join(dir, "vk2")
		os.WriteFile(pk2, c.guardPK, 0o644)
		os.WriteFile(vk2, c.guardVK, 0o644)
		x.S.Eval(2)
		x.S.Count("probe:depth_guard_import_path_with_loadable_keys")
		if ps, err := prover.ImportDeletionSetup(uint32(depth), uint32(batch), pk2, vk2); err == nil || ps != nil {
			return engine.Violatef("C12/deep-deletion-circuit-not-refused/import-path", "ImportDeletionSetup(%d,%d) with loadable key files returned err=%v system-present=%v", depth, batch, err, ps != nil)
		}
		out := filepath.Join(dir, "import.out")
		r := ops.Run(ops.Cmd{Args: []string{"import-setup", "--mode", "deletion", "--tree-depth", strconv.Itoa(depth), "--batch-size", strconv.Itoa(batch), "--pk", pk2, "--vk", vk2, "--output", out}, RandSeed: "g"})
		x.Log.Addf("cli", "import-setup", "deletion depth %d exit=%d", depth, r.Exit)
		if r.Exit == 0 {
			return engine.Violatef("C12/deep-deletion-circuit-not-refused/cli-import-setup", "`gnark-mbu import-setup --mode deletion --tree-depth %d` with loadable keys exited 0", depth)
		}
		if st, err := os.Stat(out); err == nil && st.Size() > 0 {
			return engine.Violatef("C12/deep-deletion-circuit-not-refused/cli-import-setup-leaves-file", "`gnark-mbu import-setup` exited %d but left a %d-byte output file", r.Exit, st.Size())
		}
	}
	for _, sub := range []string{"setup", "r1cs"} {
		out := filepath.Join(dir, sub+".out")
		r := ops.Run(ops.Cmd{Args: []string{sub, "--mode", "deletion", "--tree-depth", strconv.Itoa(depth), "--batch-size", strconv.Itoa(batch), "--output", out}, RandSeed: "g"})
		x.S.Eval(1)
		x.Log.Addf("cli", sub, "deletion depth %d exit=%d", depth, r.Exit)
		if r.Exit == 0 {
			return engine.Violatef("C12/deep-deletion-circuit-not-refused/cli-"+sub, "`gnark-mbu %s --mode deletion --tree-depth %d` exited 0", sub, depth)
		}
		if st, err := os.Stat(out); err == nil && st.Size() > 0 {
			return engine.Violatef("C12/deep-deletion-circuit-not-refused/cli-"+sub+"-leaves-file", "`gnark-mbu %s` exited %d but left a %d-byte output file", sub, r.Exit, st.Size())
		}
	}
	// depth 31 is still supported
	if _, err := prover.BuildR1CSDeletion(31, 1); err != nil {
		return engine.Violatef("C12/supported-depth-refused", "BuildR1CSDeletion(31,1): %v", err)
	}
	return nil
}

// overlappingBuilds: "every run ... under any scheduling" includes builds that overlap in time inside one process
// (a service that sets up or imports several systems at start-up, a test binary building circuits in parallel).
// 2..4 builders compile small circuits of tape-chosen modes and dimensions at the same moment (real goroutines
// released by one barrier: the interleaving is the Go scheduler's, uncontrolled); each result must hash to what
// the same dimensions gave when built alone, before.
func (c *C12) overlappingBuilds(x *engine.Ctx) *engine.Violation {
	t := x.T
	n := 2 + t.Draw(3)
	type job struct {
		mode         string
		depth, batch int
		ref, got     string
		err          error
		pub          int
	}
	jobs := make([]*job, n)
	for i := range jobs {
		j := &job{mode: rollup.Insertion, depth: 2 + t.Draw(6), batch: 1 + t.Draw(3)}
		if t.Chance(1, 2) {
			j.mode = rollup.Deletion
		}
		if i > 0 && t.Chance(1, 3) {
			*j = job{mode: jobs[0].mode, depth: jobs[0].depth, batch: jobs[0].batch} // the very same circuit twice at once
		}
		cs, err := buildCS(j.mode, j.depth, j.batch)
		if err != nil {
			return engine.Violatef("C12/r1cs-path-fails", "%s/d%d/b%d: %v", j.mode, j.depth, j.batch, err)
		}
		j.ref = csHash(cs)
		jobs[i] = j
	}
	start := make(chan struct{})
	var wg sync.WaitGroup
	for _, j := range jobs {
		wg.Add(1)
		go func() {
			defer wg.Done()
			defer func() {
				if r := recover(); r != nil {
					j.err = fmt.Errorf("PANIC: %v", r)
				}
			}()
			<-start
			cs, err := buildCS(j.mode, j.depth, j.batch)
			if err != nil {
				j.err = err
				return
			}
			j.got = csHash(cs)
			j.pub = cs.GetNbPublicVariables()
		}()
	}
	close(start)
	wg.Wait()
	x.S.Count("fault:schedule/overlapping-builds-in-one-process")
	for _, j := range jobs {
		key := fmt.Sprintf("%s/d%d/b%d", j.mode, j.depth, j.batch)
		x.S.Eval(1)
		x.S.Seen(key + "/overlapping-build")
		x.Log.Addf("C", "overlapping-build", "%s same=%v", key, j.got == j.ref)
		if j.err != nil {
			return engine.Violatef("C12/overlapping-builds/build-fails", "%s built while %d other builds were running in the same process: %v (alone it builds)", key, n-1, j.err)
		}
		if j.got != j.ref {
			return engine.Violatef("C12/overlapping-builds/constraint-system-differs", "%s built while %d other builds were running in the same process hashes to %s; built alone, earlier in the same process, %s", key, n-1, j.got[:16], j.ref[:16])
		}
		if j.pub != 2 {
			return engine.Violatef("C12/not-exactly-one-public-input", "%s (overlapping build): %d public variables besides the constant wire", key, j.pub-1)
		}
	}
	return nil
}
