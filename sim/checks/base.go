// Package checks holds one file per property: workload, fault space and oracle.
package checks

import (
	"math/big"
	"sort"

	"verifsim/engine"
)

type base struct {
	id    string
	level string
}

func (b *base) ID() string                          { return b.id }
func (b *base) Level() string                       { return b.level }
func (b *base) Init(string, int, int, uint64) error { return nil }
func (b *base) Finish(*engine.Stats, string) error  { return nil }
func (b *base) Assumptions() []string               { return nil }

var registry = map[string]engine.Check{}

func register(c engine.Check) { registry[c.ID()] = c }

func Get(id string) engine.Check { return registry[id] }

func IDs() []string {
	ids := make([]string, 0, len(registry))
	for k := range registry {
		ids = append(ids, k)
	}
	sort.Strings(ids)
	return ids
}

func bigInt(v int64) *big.Int { return big.NewInt(v) }
