package checks

import (
	"encoding/json"
	"fmt"
	"github.com/consensys/gnark-crypto/ecc/bn254"
	"math/big"

	"github.com/consensys/gnark/backend/groth16"

	"verifsim/engine"
	"verifsim/gtier"
	"verifsim/oracle"
	"verifsim/rollup"
	"verifsim/tape"

	"worldcoin/gnark-mbu/prover"
)

// gsys is the per-worker Groth16 material shared by C07 and C10.
type gsys struct {
	systems []*gtier.System
	w       int
}

func (g *gsys) init(worker int, want []dims) error {
	if g.systems != nil && g.w == worker {
		return nil
	}
	g.systems, g.w = nil, worker
	for _, d := range want {
		s, err := gtier.Setup(d.mode, d.depth, d.batch, 0)
		if err != nil {
			return fmt.Errorf("setup %v: %w", d, err)
		}
		g.systems = append(g.systems, s)
	}
	return nil
}

// validBatch builds a Merkle-valid batch for the system over a fresh seeded history and
// returns typed parameters, the contract's hash, and a description.
func validInsertion(t *tape.Tape, s *gtier.System) (*oracle.InsertionWitness, *rollup.World) {
	w := rollup.NewWorld(s.Depth)
	if t.Chance(1, 2) {
		w.Populate(t, t.Range(0, 3))
	}
	comms := make([]*big.Int, s.Batch)
	for i := range comms {
		comms[i] = rollup.RandomCommitment(t)
	}
	start, ok := w.FreeStart(t, s.Batch)
	if !ok {
		w = rollup.NewWorld(s.Depth)
		start = 0
	}
	return rollup.HonestInsertion(w.Model, start, comms), w
}

func validDeletion(t *tape.Tape, s *gtier.System) (*oracle.DeletionWitness, *rollup.World) {
	w := rollup.NewWorld(s.Depth)
	w.Populate(t, t.Range(1, 4))
	plan := w.PlanDeletion(t, s.Batch)
	return rollup.HonestDeletion(w.Model, plan.Indices, rollup.GarbageFiller(t, s.Depth)), w
}

// proveValid produces a real proof for a fresh valid batch, with the prover's randomness
// taken from the tape.
func proveValid(t *tape.Tape, s *gtier.System) (groth16.Proof, *big.Int, error) {
	gtier.SeedRand(uint64(t.U32())<<32|uint64(t.U32()), uint64(t.U32()))
	if s.Mode == rollup.Insertion {
		w, _ := validInsertion(t, s)
		p, err := s.PS.ProveInsertion(gtier.InsertionParams(w))
		if err != nil {
			return nil, nil, err
		}
		return p.Proof, w.InputHash, nil
	}
	w, _ := validDeletion(t, s)
	p, err := s.PS.ProveDeletion(gtier.DeletionParams(w))
	if err != nil {
		return nil, nil, err
	}
	return p.Proof, w.InputHash, nil
}

// ---------------------------------------------------------------------------------------

type C10 struct {
	base
	g      gsys
	sp     *gtier.ShortPoints
	holder *prover.Proof    // the re-used decode target of the current run (history)
	bd     []bn254.G1Affine // curve points with x at the edges of the base field's range (gtier.BoundaryG1)
}

func init() { register(&C10{base: base{id: "C10", level: "exploration"}}) }

func (c *C10) Rule() string {
	return "one run = either one real Groth16 proof of a fresh valid batch (prover randomness drawn from the tape through the seeded crypto/rand seam) or 40 forged proofs assembled from small multiples of the curve generators searched for coordinates with leading zero bytes (incl. (1,2)), a quarter of them with A or C replaced by a genuine curve point whose x lies at an edge of the base field's range (just below q, in [r, q), around r, around 2^253); each proof is encoded by the repository, decoded by our own decoder (compared coordinate by coordinate with the gnark proof struct in EVM order), decoded by the repository (compared with the original) and verified before and after; evaluations = proofs round-tripped; non-trivial = proof with at least one coordinate shorter than 32 bytes; distinct = pattern of which of the 8 coordinates are short and by how many bytes; every fifth run is a World L run: 2..5 caller tasks encode/decode their own forged proofs interleaved by the tape at every statement of the instrumented codec; every forged proof is also decoded into one re-used prover.Proof value of the run, which is then encoded again (history on one value)"
}
func (c *C10) Assumptions() []string {
	return []string{"EVM order A.x A.y B.x1 B.x0 B.y1 B.y0 C.x C.y and 0x-hex rendering are taken from the property text", "ground-truth coordinates are read by reflection from gnark's internal BN254 proof struct"}
}
func (c *C10) Real() []string {
	return []string{"prover.Proof MarshalJSON / UnmarshalJSON", "prover.SetupInsertion/SetupDeletion, ProveInsertion/ProveDeletion, VerifyInsertion/VerifyDeletion (Groth16, gnark v0.8.0)"}
}
func (c *C10) Simulated() []string {
	return []string{"crypto/rand (seeded ChaCha8 stream: setup keys fixed per configuration, prover randomness from the tape)", "forged-proof adversary (fault injector)", "independent proof decoder"}
}
func (c *C10) Plan(tier string) engine.Plan {
	if tier == "thorough" {
		return engine.Plan{Runs: 1000000, Workers: 8, BudgetSec: 1200, ShrinkSec: 120}
	}
	return engine.Plan{Runs: 1000000, Workers: 8, BudgetSec: 60, ShrinkSec: 40}
}

func (c *C10) Init(tier string, worker, nworkers int, seed uint64) error {
	mode := rollup.Insertion
	if worker%2 == 1 {
		mode = rollup.Deletion
	}
	if err := c.g.init(worker, []dims{{mode, 2 + worker%3, 1 + worker%2}}); err != nil {
		return err
	}
	if c.sp == nil {
		c.sp = gtier.FindShortPoints(6000, 2500)
		c.bd = gtier.BoundaryG1()
		if len(c.bd) < 8 {
			return fmt.Errorf("boundary point search found only %d points", len(c.bd))
		}
	}
	return nil
}

func shortPattern(cs [8]*big.Int) string {
	s := ""
	for _, x := range cs {
		s += fmt.Sprintf("%d.", 32-(x.BitLen()+7)/8)
	}
	return s
}

// roundTrip is the per-proof check. expectValid is what the verifier must say about the
// original for the given hash.
func (c *C10) roundTrip(x *engine.Ctx, s *gtier.System, p groth16.Proof, hash *big.Int, kind string) *engine.Violation {
	truth, err := gtier.Coordinates(p)
	if err != nil {
		panic(err)
	}
	x.S.Eval(1)
	nshort := gtier.ShortCoordinates(truth)
	shortTag := "all-coordinates-32-bytes"
	if nshort > 0 {
		shortTag = "coordinate-shorter-than-32-bytes"
		x.S.Count("probe:proof_with_short_coordinate/" + kind)
		x.S.Seen(kind + "/" + shortPattern(truth))
	}
	enc, err := json.Marshal(&prover.Proof{Proof: p})
	if err != nil {
		return engine.Violatef("C10/encode-error/"+shortTag, "%s proof: MarshalJSON: %v", kind, err)
	}
	dec, err := gtier.DecodeJSON(enc)
	if err != nil {
		return engine.Violatef("C10/encoding-not-documented-json/"+shortTag, "%s proof: %v in %s", kind, err, string(enc))
	}
	for i := range dec {
		if dec[i].Cmp(truth[i]) != 0 {
			return engine.Violatef("C10/encoding-not-in-evm-order/"+shortTag, "%s proof: JSON coordinate %d is %s, proof struct has %s (order A.x A.y B.x1 B.x0 B.y1 B.y0 C.x C.y)", kind, i, dec[i].Text(16), truth[i].Text(16))
		}
	}
	origErr := gtier.VerifyWithVK(s, p, hash)
	var back prover.Proof
	if err := json.Unmarshal(enc, &back); err != nil {
		x.Log.Addf("codec", "roundtrip", "%s short=%s decode-error", kind, shortPattern(truth))
		return engine.Violatef("C10/roundtrip-fails/"+shortTag, "%s proof with coordinates %s (short pattern %s): UnmarshalJSON of the repository's own encoding fails: %v", kind, string(enc), shortPattern(truth), err)
	}
	got, err := gtier.Coordinates(back.Proof)
	if err != nil {
		panic(err)
	}
	for i := range got {
		if got[i].Cmp(truth[i]) != 0 {
			x.Log.Addf("codec", "roundtrip", "%s short=%s differs", kind, shortPattern(truth))
			return engine.Violatef("C10/roundtrip-fails/"+shortTag, "%s proof: coordinate %d decodes to %s, original %s", kind, i, got[i].Text(16), truth[i].Text(16))
		}
	}
	backErr := gtier.VerifyWithVK(s, back.Proof, hash)
	if (origErr == nil) != (backErr == nil) {
		return engine.Violatef("C10/verdict-changes-after-roundtrip/"+shortTag, "%s proof: verifier says %v before and %v after the JSON round trip", kind, origErr, backErr)
	}
	// and through the repository's own verify wrapper
	var wrapErr error
	if s.Mode == rollup.Insertion {
		wrapErr = s.PS.VerifyInsertion(*hash, &back)
	} else {
		wrapErr = s.PS.VerifyDeletion(*hash, &back)
	}
	if (wrapErr == nil) != (origErr == nil) {
		return engine.Violatef("C10/verdict-changes-after-roundtrip/"+shortTag, "%s proof: repository verifier says %v on the decoded proof, gnark said %v on the original", kind, wrapErr, origErr)
	}
	// history: one Proof value used over and over, as a long-lived caller (a relayer's receive buffer) would: this
	// proof is decoded into the value that held the run's earlier proofs and was encoded before, and the value is
	// encoded again - it must now be this proof, whatever it held or cached before
	if c.holder == nil {
		c.holder = new(prover.Proof)
	}
	if err := json.Unmarshal(enc, c.holder); err != nil {
		return engine.Violatef("C10/roundtrip-fails/reused-decode-target", "%s proof %s: UnmarshalJSON into a value that held an earlier proof fails: %v", kind, string(enc), err)
	}
	got2, err := gtier.Coordinates(c.holder.Proof)
	if err != nil {
		return engine.Violatef("C10/roundtrip-fails/reused-decode-target", "%s proof: value decoded into holds no proof: %v", kind, err)
	}
	for i := range got2 {
		if got2[i].Cmp(truth[i]) != 0 {
			return engine.Violatef("C10/roundtrip-fails/reused-decode-target", "%s proof decoded into a value that held an earlier proof: coordinate %d is %s, original %s", kind, i, got2[i].Text(16), truth[i].Text(16))
		}
	}
	enc2, err := json.Marshal(c.holder)
	if err != nil {
		return engine.Violatef("C10/encode-error/reused-value", "%s proof: MarshalJSON of a re-used value: %v", kind, err)
	}
	dec2, err := gtier.DecodeJSON(enc2)
	if err != nil {
		return engine.Violatef("C10/encoding-not-documented-json/reused-value", "%s proof: %v in %s", kind, err, string(enc2))
	}
	for i := range dec2 {
		if dec2[i].Cmp(truth[i]) != 0 {
			return engine.Violatef("C10/encoding-of-reused-value-is-not-the-proof-it-holds", "%s proof: a value that was encoded, then decoded into, encodes coordinate %d as %s; the proof it holds has %s", kind, i, dec2[i].Text(16), truth[i].Text(16))
		}
	}
	x.S.Count("probe:reused_value_decode_then_encode")
	x.Log.Addf("codec", "roundtrip", "%s short=%s ok valid=%v", kind, shortPattern(truth), origErr == nil)
	if kind == "real" && origErr != nil {
		return engine.Violatef("C10/real-proof-does-not-verify", "a proof returned by the prover does not verify for its own hash: %v", origErr)
	}
	if kind == "forged" && origErr == nil {
		return engine.Violatef("C10/forged-proof-verifies", "a proof assembled from generator multiples verifies")
	}
	if x.S.WantSample() && nshort > 0 {
		x.S.Sample(map[string]any{"kind": kind, "json": string(enc), "short_bytes_per_coordinate": shortPattern(truth), "verifies": origErr == nil})
	}
	return nil
}

func (c *C10) Run(x *engine.Ctx) *engine.Violation {
	t := x.T
	s := c.g.systems[0]
	x.S.Touch("probe:proof_with_short_coordinate/real", "probe:proof_with_short_coordinate/forged")
	c.holder = nil
	if x.Run%5 == 4 {
		return c.concurrentCallers(x) // World L: interleaved encoders/decoders, each on its own proofs
	}
	if t.Chance(1, 2) {
		p, hash, err := proveValid(t, s)
		if err != nil {
			return engine.Violatef("C10/prover-rejects-valid-batch", "%s: %v", s.Key(), err)
		}
		x.S.Count("real_proofs")
		return c.roundTrip(x, s, p, hash, "real")
	}
	for i := 0; i < 40; i++ {
		var a, cc = c.sp.G1[t.Pick(len(c.sp.G1))], c.sp.G1[t.Pick(len(c.sp.G1))]
		b := c.sp.G2[t.Pick(len(c.sp.G2))]
		if t.Chance(1, 10) {
			a = c.sp.G1[0] // the generator (1,2): 31 leading zero bytes in both coordinates
		}
		if t.Chance(1, 12) {
			cc = a // A and C the same point
		}
		// coordinates at the edges of the base field's range (x just below q, x in [r, q), around 2^253):
		// every such point is a genuine curve point, hence a legal A or C of a proof
		if t.Chance(1, 4) {
			a = c.bd[t.Pick(len(c.bd))]
			x.S.Count("fault:forged-proof-with-boundary-coordinate")
		}
		if t.Chance(1, 4) {
			cc = c.bd[t.Pick(len(c.bd))]
			x.S.Count("fault:forged-proof-with-boundary-coordinate")
		}
		p, err := gtier.FromCoordinates(gtier.CoordsOfPoints(a, b, cc))
		if err != nil {
			panic(err)
		}
		x.S.Count("fault:forged-proof-from-generator-multiples")
		if v := c.roundTrip(x, s, p, big.NewInt(int64(1+t.Draw(1000))), "forged"); v != nil {
			return v
		}
	}
	return nil
}
