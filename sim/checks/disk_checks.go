package checks

import (
	"bytes"
	"encoding/json"
	"errors"
	"fmt"
	"io"
	"math/big"
	"os"
	"path/filepath"
	"sort"
	"strconv"
	"sync"
	"time"

	"verifsim/engine"
	"verifsim/gtier"
	"verifsim/ops"
	"verifsim/rollup"
	"verifsim/service"
	"verifsim/tape"

	"worldcoin/gnark-mbu/prover"
)

// simdisk: the writer side of a file that can crash (only a prefix survives) or run out of
// space at byte k; it also records the boundaries of the Write calls it saw.

var errNoSpace = errors.New("simdisk: no space left on device")

type diskWriter struct {
	buf     bytes.Buffer
	limit   int64 // -1: unlimited; otherwise ENOSPC once this many bytes were taken
	calls   []int64
	keepAll bool
}

func (w *diskWriter) Write(p []byte) (int, error) {
	if w.limit >= 0 && int64(w.buf.Len())+int64(len(p)) > w.limit {
		n := int(w.limit - int64(w.buf.Len()))
		if n > 0 {
			w.buf.Write(p[:n])
		}
		return n, errNoSpace
	}
	w.buf.Write(p)
	if w.keepAll || len(w.calls) < 200000 {
		w.calls = append(w.calls, int64(w.buf.Len()))
	}
	return len(p), nil
}

// shortReader returns legal short reads at sparse tape-chosen offsets.
type shortReader struct {
	data []byte
	pos  int
	cuts []int // sorted offsets at which a read is cut short
}

func (r *shortReader) Read(p []byte) (int, error) {
	if r.pos >= len(r.data) {
		return 0, io.EOF
	}
	n := len(p)
	if n > len(r.data)-r.pos {
		n = len(r.data) - r.pos
	}
	i := sort.SearchInts(r.cuts, r.pos+1)
	if i < len(r.cuts) && r.cuts[i] < r.pos+n {
		n = r.cuts[i] - r.pos
	}
	if n == 0 {
		n = 1
	}
	copy(p, r.data[r.pos:r.pos+n])
	r.pos += n
	return n, nil
}

// diskSys is one proving system with both serialisations and their section layout.
type diskSys struct {
	sys        *gtier.System
	raw, comp  []byte
	rawB, cmpB [4]int64 // section ends: header, pk, vk, cs(=len)
	rawCalls   []int64
	cmpCalls   []int64
}

func sectionEnds(ps *prover.ProvingSystem, raw bool) ([4]int64, error) {
	var out [4]int64
	out[0] = 8
	var pk, vk bytes.Buffer
	var err error
	if raw {
		_, err = ps.ProvingKey.WriteRawTo(&pk)
		if err == nil {
			_, err = ps.VerifyingKey.WriteRawTo(&vk)
		}
	} else {
		_, err = ps.ProvingKey.WriteTo(&pk)
		if err == nil {
			_, err = ps.VerifyingKey.WriteTo(&vk)
		}
	}
	if err != nil {
		return out, err
	}
	out[1] = out[0] + int64(pk.Len())
	out[2] = out[1] + int64(vk.Len())
	return out, nil
}

func buildDiskSys(mode string, depth, batch int, salt uint64) (*diskSys, error) {
	s, err := gtier.Setup(mode, depth, batch, salt)
	if err != nil {
		return nil, err
	}
	d := &diskSys{sys: s}
	wr := &diskWriter{limit: -1, keepAll: true}
	if _, err := s.PS.WriteRawTo(wr); err != nil {
		return nil, err
	}
	d.raw, d.rawCalls = wr.buf.Bytes(), wr.calls
	wc := &diskWriter{limit: -1, keepAll: true}
	if _, err := s.PS.WriteTo(wc); err != nil {
		return nil, err
	}
	d.comp, d.cmpCalls = wc.buf.Bytes(), wc.calls
	if d.rawB, err = sectionEnds(s.PS, true); err != nil {
		return nil, err
	}
	if d.cmpB, err = sectionEnds(s.PS, false); err != nil {
		return nil, err
	}
	d.rawB[3], d.cmpB[3] = int64(len(d.raw)), int64(len(d.comp))
	if d.rawB[2] >= d.rawB[3] || d.cmpB[2] >= d.cmpB[3] {
		return nil, fmt.Errorf("section layout does not add up: %v %v", d.rawB, d.cmpB)
	}
	return d, nil
}

// structuredOffsets lists the crash points the design enumerates: every offset in the header
// and the first 256 bytes of each section, +-4 around every section boundary, a window of
// Write-call boundaries, and the last bytes.
func structuredOffsets(ends [4]int64, calls []int64, t *tape.Tape) []int64 {
	set := map[int64]bool{}
	add := func(k int64) {
		if k >= 0 && k < ends[3] {
			set[k] = true
		}
	}
	starts := []int64{0, ends[0], ends[1], ends[2]}
	for k := int64(0); k <= 16; k++ {
		add(k)
	}
	for _, s := range starts[1:] {
		for k := int64(0); k < 256; k++ {
			add(s + k)
		}
		for k := int64(-4); k <= 4; k++ {
			add(s + k)
		}
	}
	for k := int64(1); k <= 6; k++ {
		add(ends[3] - k)
	}
	// the verifying-key section is small: every offset of it
	if ends[2]-ends[1] <= 4096 {
		for k := ends[1]; k <= ends[2]; k++ {
			add(k)
		}
	}
	// Write-call boundaries: array boundaries inside the keys show up here
	step := len(calls) / 120
	if step < 1 {
		step = 1
	}
	for i := 0; i < len(calls); i += step {
		j := i + t.Draw(step)
		if j < len(calls) {
			add(calls[j])
			add(calls[j] - 1)
			add(calls[j] + 1)
		}
	}
	// block-aligned ends: file systems persist whole blocks and extents, interrupted copies and downloads stop at
	// chunk boundaries - every multiple of 1 MiB, and the powers of two from 512 bytes up
	for k := int64(1 << 20); k < ends[3]; k += 1 << 20 {
		add(k)
	}
	for k := int64(512); k < ends[3]; k <<= 1 {
		add(k)
	}
	out := make([]int64, 0, len(set))
	for k := range set {
		out = append(out, k)
	}
	sort.Slice(out, func(i, j int) bool { return out[i] < out[j] })
	// deterministic shuffle: any initial segment of the enumeration samples every section
	for i := len(out) - 1; i > 0; i-- {
		j := t.Draw(i + 1)
		out[i], out[j] = out[j], out[i]
	}
	// the cut points the property names come first in any case: inside the header, within a byte of each
	// section boundary, and the last bytes of the file (one byte short of complete)
	named := func(k int64) bool {
		if k <= 16 || k >= ends[3]-6 {
			return true
		}
		for _, e := range ends[:3] {
			if k >= e-1 && k <= e+1 {
				return true
			}
		}
		return false
	}
	// then the coarsely aligned ends (multiples of 4 MiB, then of 1 MiB and the powers of two), then the rest
	aligned := func(k int64) int {
		switch {
		case k >= 1<<22 && k%(1<<22) == 0:
			return 1
		case k%(1<<20) == 0 || k&(k-1) == 0:
			return 2
		}
		return 3
	}
	front := make([]int64, 0, len(out))
	for _, k := range out {
		if named(k) {
			front = append(front, k)
		}
	}
	for cls := 1; cls <= 3; cls++ {
		for _, k := range out {
			if !named(k) && aligned(k) == cls {
				front = append(front, k)
			}
		}
	}
	return front
}

func sectionOf(ends [4]int64, k int64) string {
	switch {
	case k < ends[0]:
		return "header"
	case k < ends[1]:
		return "proving-key"
	case k < ends[2]:
		return "verifying-key"
	default:
		return "constraint-system"
	}
}

// ---------------------------------------------------------------------------------------

type C15 struct {
	base
	d        *diskSys
	dw       int
	rawOffs  []int64
	cmpOffs  []int64
	scratch  string
	scratchM sync.Mutex
}

func init() { register(&C15{base: base{id: "C15", level: "fault_enumeration"}, dw: -1}) }

func (c *C15) Rule() string {
	return "one run = one crash point of the write of a real proving-system file in one format: the writer (simdisk) crashes after k bytes so that only the k-byte prefix survives, or reports ENOSPC at k; the prefix is then read back by UnsafeReadFrom through an in-memory reader, a reader with legal short reads, or ReadSystemFromFile on a real prefix file. Run indices first enumerate the structured offsets, those the property names (header, within a byte of a section boundary, the last six bytes) first, and each structural cut point that the drawn entry point rejects is pushed through the other two as well (every offset of the 8-byte header, the first 256 bytes of and +-4 around each of the pk|vk|cs sections, a window of Write-call boundaries found by a counting writer, the last 6 bytes) for both formats; later runs draw uniform offsets. Oracle: an error, no panic, return within the watchdog. evaluations = prefixes read; non-trivial = 0 < k < file length; distinct = (format, offset); every fifth run is an element of the enumerated CLI matrix (6 commands x 2 formats x 8 cut classes)"
}
func (c *C15) Assumptions() []string {
	return []string{"a crash or interrupted copy is modelled as the file truncated to a prefix (what the property quantifies over); torn writes that corrupt bytes inside the prefix are out of its scope"}
}
func (c *C15) Real() []string {
	return []string{"ProvingSystem.WriteTo / WriteRawTo (through the simulated disk)", "ProvingSystem.UnsafeReadFrom, prover.ReadSystemFromFile", "gnark / gnark-crypto key and constraint-system decoders"}
}
func (c *C15) Simulated() []string {
	return []string{"disk: writer that crashes after k bytes or returns ENOSPC at k, reader with short reads", "crash point (enumerated / seeded)"}
}
func (c *C15) Plan(tier string) engine.Plan {
	if tier == "thorough" {
		return engine.Plan{Runs: 60000, Workers: 12, BudgetSec: 1800, ShrinkSec: 60}
	}
	return engine.Plan{Runs: 1400, Workers: 8, BudgetSec: 150, ShrinkSec: 30}
}

func (c *C15) Init(tier string, worker, nworkers int, seed uint64) error {
	if c.d != nil {
		return nil
	}
	// every worker uses the same system, so that run index -> offset is worker-independent
	mode, depth, batch := rollup.Deletion, 2, 1
	if seed%2 == 0 {
		mode, depth, batch = rollup.Insertion, 3, 2
	}
	d, err := buildDiskSys(mode, depth, batch, 0)
	if err != nil {
		return err
	}
	c.d = d
	t := tape.New(seed^0xC15, 1)
	c.rawOffs = structuredOffsets(d.rawB, d.rawCalls, t)
	c.cmpOffs = structuredOffsets(d.cmpB, d.cmpCalls, t)
	c.scratch = os.Getenv("VERIF_SCRATCH_DIR")
	if c.scratch == "" {
		c.scratch = os.TempDir()
	}
	return nil
}

type readOutcome struct {
	err   error
	pan   any
	hang  bool
	depth uint32
}

func readPrefix(prefix []byte, style int, cuts []int, path string) readOutcome {
	done := make(chan readOutcome, 1)
	go func() {
		var o readOutcome
		defer func() {
			if r := recover(); r != nil {
				o.pan = r
			}
			done <- o
		}()
		switch style {
		case 2:
			ps, err := prover.ReadSystemFromFile(path)
			o.err = err
			if err == nil && ps != nil {
				o.depth = ps.TreeDepth
			}
		case 1:
			ps := new(prover.ProvingSystem)
			_, o.err = ps.UnsafeReadFrom(&shortReader{data: prefix, cuts: cuts})
		default:
			ps := new(prover.ProvingSystem)
			_, o.err = ps.UnsafeReadFrom(bytes.NewReader(prefix))
		}
	}()
	select {
	case o := <-done:
		return o
	case <-time.After(time.Duration(60+3*(len(prefix)>>20)) * time.Second):
		return readOutcome{hang: true}
	}
}

func (c *C15) Run(x *engine.Ctx) *engine.Violation {
	t := x.T
	d := c.d
	format := "raw"
	data, ends, offs := d.raw, d.rawB, c.rawOffs
	idx := int(x.Run)
	if ops.Bin() != "" {
		idx -= (idx + 1) / 5 // every fifth run is an element of the CLI matrix below; the others are numbered densely
	}
	if idx%2 == 1 {
		format = "compressed"
		data, ends, offs = d.comp, d.cmpB, c.cmpOffs
	}
	idx /= 2
	var k int64
	enumerated := idx < len(offs)
	if enumerated {
		k = offs[idx]
	} else {
		k = int64(t.BigBelow(bigInt(ends[3])).Int64())
	}
	if ops.Bin() != "" && x.Run%5 == 4 {
		// CLI matrix, enumerated: every command that reads a keys file x both formats x a cut in every section
		// (and at the boundaries the property names), so that a short run has all of them
		// visited in a scattered order (37 is coprime to 96) so that even a short or slow run has every command,
		// both formats and every cut class early on
		m := (int(x.Run/5) * 37) % 96
		cmd, fm, cls := m%6, (m/6)%2, (m/12)%8
		format, data, ends = "raw", d.raw, d.rawB
		if fm == 1 {
			format, data, ends = "compressed", d.comp, d.cmpB
		}
		between := func(lo, hi int64) int64 {
			if hi <= lo {
				return lo
			}
			return lo + t.BigBelow(bigInt(hi-lo)).Int64()
		}
		switch cls {
		case 0:
			k = int64(t.Draw(8))
		case 1:
			k = between(ends[0], ends[1])
		case 2:
			k = ends[1] - 1 - int64(t.Draw(3))
		case 3:
			k = between(ends[1], ends[2])
		case 4:
			k = ends[2]
		case 5:
			k = ends[2] + 1 + int64(t.Draw(64))
		case 6:
			k = between(ends[2]+1, ends[3])
		default:
			k = ends[3] - 1 - int64(t.Draw(6))
		}
		x.S.Count("fault:disk/crash-after-k-bytes")
		x.S.Count("probe:cli_matrix_element")
		return c.cliOnPrefix(x, format, data[:k], ends, cmd)
	}
	fault := "crash-after-k-bytes"
	var prefix []byte
	if t.Chance(1, 4) {
		// ENOSPC at k: the writer must report the error, and what reached the disk is the prefix
		fault = "enospc-at-k"
		wr := &diskWriter{limit: k}
		var err error
		func() {
			defer func() {
				if r := recover(); r != nil {
					err = fmt.Errorf("PANIC: %v", r)
				}
			}()
			if format == "raw" {
				_, err = d.sys.PS.WriteRawTo(wr)
			} else {
				_, err = d.sys.PS.WriteTo(wr)
			}
		}()
		x.S.Count("fault:disk/enospc-at-k")
		if err == nil {
			return engine.Violatef("C15/write-reports-success-on-full-disk", "%s format: writer ran out of space at byte %d of %d but the write returned no error", format, k, ends[3])
		}
		if isPanic(err) {
			return engine.Violatef("C15/write-panics-on-full-disk", "%s format, byte %d: %v", format, k, err)
		}
		prefix = wr.buf.Bytes()
		if !bytes.Equal(prefix, data[:len(prefix)]) {
			panic("simdisk: bytes written before ENOSPC are not a prefix of the complete file")
		}
	} else {
		x.S.Count("fault:disk/crash-after-k-bytes")
		prefix = data[:k]
	}
	if ops.Bin() != "" && t.Chance(1, 10) {
		return c.cliOnPrefix(x, format, prefix, ends, -1)
	}
	// ReadSystemFromFile on a real file is what every command does; the in-memory readers add short reads
	style := t.Weighted(4, 3, 3)
	if int64(len(prefix)) > 4<<20 && style == 2 && !enumerated && t.Chance(1, 2) {
		style = 0 // bound the I/O volume of the randomly placed cuts; the structural ones always get their file
	}
	var cuts []int
	path := ""
	switch style {
	case 1:
		n := 1 + t.Draw(12)
		for i := 0; i < n && len(prefix) > 0; i++ {
			cuts = append(cuts, int(t.BigBelow(bigInt(int64(len(prefix)+1))).Int64()))
		}
		sort.Ints(cuts)
		x.S.Count("fault:disk/short-reads")
	case 2:
		path = filepath.Join(c.scratch, fmt.Sprintf("c15-%d-%d.prefix", os.Getpid(), x.Run))
		if err := os.WriteFile(path, prefix, 0o644); err != nil {
			panic(err)
		}
		defer os.Remove(path)
		x.S.Count("read_via_ReadSystemFromFile")
	}
	o := readPrefix(prefix, style, cuts, path)
	if (len(prefix) <= 16 || enumerated) && o.err != nil && o.pan == nil && !o.hang {
		// header-sized prefixes are cheap, and the structural cut points (section boundaries, Write-call
		// boundaries, one byte short of complete) are few: push them through every entry point, not only
		// the drawn one
		for alt := 0; alt < 3; alt++ {
			if alt == style {
				continue
			}
			ap := ""
			if alt == 2 {
				ap = filepath.Join(c.scratch, fmt.Sprintf("c15h-%d-%d.prefix", os.Getpid(), x.Run))
				if err := os.WriteFile(ap, prefix, 0o644); err != nil {
					panic(err)
				}
			}
			o2 := readPrefix(prefix, alt, []int{1, 3, 5}, ap)
			if ap != "" {
				os.Remove(ap)
			}
			x.S.Eval(1)
			if o2.hang || o2.pan != nil || o2.err == nil {
				o, style = o2, alt
				break
			}
		}
	}
	x.S.Eval(1)
	sec := sectionOf(ends, int64(len(prefix)))
	x.S.Count("probe:prefix_ends_in_" + sec)
	if len(prefix) > 0 {
		x.S.Seen(fmt.Sprintf("%s/%d", format, len(prefix)))
	}
	errs := "nil"
	if o.err != nil {
		errs = "error"
	}
	x.Log.Addf("disk", "read-prefix", "%s k=%d of %d (%s) fault=%s style=%d -> %s panic=%v", format, len(prefix), ends[3], sec, fault, style, errs, o.pan != nil)
	if x.S.WantSample() && enumerated && len(prefix) > 8 {
		x.S.Sample(map[string]any{"format": format, "file_bytes": ends[3], "prefix_bytes": len(prefix), "section": sec, "fault": fault, "reader": []string{"bytes.Reader", "short reads", "ReadSystemFromFile"}[style], "result": fmt.Sprint(o.err)})
	}
	where := fmt.Sprintf("%s format, prefix of %d of %d bytes (ends in %s), %s, read through %s", format, len(prefix), ends[3], sec, fault, []string{"UnsafeReadFrom(bytes.Reader)", "UnsafeReadFrom(short reads)", "ReadSystemFromFile"}[style])
	switch {
	case o.hang:
		return engine.Violatef("C15/read-of-truncated-file-hangs/"+sec, "%s: no return within the watchdog", where)
	case o.pan != nil:
		return engine.Violatef("C15/read-of-truncated-file-panics/"+sec, "%s: %v", where, o.pan)
	case o.err == nil:
		return engine.Violatef("C15/truncated-file-loads-without-error/"+sec, "%s: the reader returned a proving system and no error", where)
	}
	return nil
}

// ---------------------------------------------------------------------------------------
// C11: a proving-system file reloads to an interchangeable system in either format

type C11 struct {
	base
	d     *diskSys
	other *gtier.System
	dw    int
	nw    int // number of workers (runs are dealt round-robin)
	// the other mode's complete compressed keys file (history: loaded in the same process as A's files)
	otherFile []byte
}

func init() { register(&C11{base: base{id: "C11", level: "exploration"}, dw: -1}) }

func (c *C11) Rule() string {
	return "one run = node A (a real proving system set up with seeded keys; a different, independent setup per worker process, depth != batch) writes its file through the simulated disk in one format (compressed, raw, or compressed then converted to raw by a second node); node B boots from those bytes through an in-memory reader, a reader with sparse legal short reads, or ReadSystemFromFile on a real file; B must report A's dimensions, re-serialise byte-identically, prove a fresh valid batch that A verifies, verify a proof A produced, and still reject a proof of the other mode's system; evaluations = reloads checked; non-trivial = reload through the converted path or through short reads / a real file; distinct = (mode, dimensions, setup, format path, reader style, re-serialised format)"
}
func (c *C11) Real() []string {
	return []string{"ProvingSystem.WriteTo / WriteRawTo / UnsafeReadFrom, prover.ReadSystemFromFile", "Setup*, Prove*, Verify* of both modes"}
}
func (c *C11) Simulated() []string {
	return []string{"disk (in-memory files, short reads)", "crypto/rand (seeded: keys per setup, prover randomness from the tape)", "nodes A/B/C as objects of one process"}
}
func (c *C11) Assumptions() []string {
	return []string{"readers returning <= 1 KiB per call for a whole file are not injected: the constraint-system decoder is quadratic under that pattern and no production path reads that way"}
}
func (c *C11) Plan(tier string) engine.Plan {
	if tier == "thorough" {
		return engine.Plan{Runs: 100000, Workers: 8, BudgetSec: 1500, ShrinkSec: 120}
	}
	return engine.Plan{Runs: 100000, Workers: 6, BudgetSec: 80, ShrinkSec: 40}
}

func (c *C11) Init(tier string, worker, nworkers int, seed uint64) error {
	if c.d != nil && c.dw == worker {
		return nil
	}
	// one system per worker (a Groth16 setup each); the pool spans the corners of the dimension space: a
	// deletion batch larger than the tree (padding entries make that a legitimate system), the largest
	// depths both circuits accept, a batch that is not a power of two; depth != batch, so a swap is visible
	pool := []dims{
		{rollup.Insertion, 3, 2}, {rollup.Deletion, 2, 5}, {rollup.Insertion, 32, 1}, {rollup.Deletion, 4, 1},
		{rollup.Insertion, 5, 7}, {rollup.Deletion, 31, 2}, {rollup.Insertion, 4, 1}, {rollup.Deletion, 1, 3},
	}
	pick := pool[(worker+int(seed%uint64(len(pool)))+len(pool)-1)%len(pool)]
	mode, depth, batch := pick.mode, pick.depth, pick.batch
	omode := rollup.Deletion
	if mode == rollup.Deletion {
		omode = rollup.Insertion
	}
	d, err := buildDiskSys(mode, depth, batch, uint64(worker)+seed*1000)
	if err != nil {
		return err
	}
	// the other mode's system has the SAME dimensions where a second setup is affordable: a node that handles both
	// modes of one tree loads exactly such a pair of files in one process
	odepth, obatch := 2, 1
	if depth <= 6 && batch <= 7 && (omode == rollup.Deletion || 1<<uint(depth) >= 2*batch) {
		odepth, obatch = depth, batch // (an insertion batch must fit into the tree, with room for a history)
	}
	o, err := gtier.Setup(omode, odepth, obatch, 0)
	if err != nil {
		return err
	}
	var ob bytes.Buffer
	if _, err := o.PS.WriteTo(&ob); err != nil {
		return err
	}
	c.otherFile = ob.Bytes()
	c.d, c.other, c.dw, c.nw = d, o, worker, nworkers
	return nil
}

func (c *C11) Run(x *engine.Ctx) *engine.Violation {
	t := x.T
	d := c.d
	a := d.sys
	path := []string{"raw", "compressed", "converted"}[t.Weighted(2, 2, 2)]
	style := t.Weighted(3, 3, 2)
	if t.Chance(1, 3) {
		// history: this process also loads the other mode's keys file (same dimensions where affordable), before or
		// after A's - whatever the reader remembers between files, each file must yield its own system
		x.S.Count("probe:other_modes_file_loaded_in_the_same_process")
		ol := new(prover.ProvingSystem)
		var lerr error
		func() {
			defer func() {
				if r := recover(); r != nil {
					lerr = fmt.Errorf("PANIC: %v", r)
				}
			}()
			_, lerr = ol.UnsafeReadFrom(bytes.NewReader(c.otherFile))
		}()
		if lerr != nil {
			return engine.Violatef("C11/reload-fails/other-modes-file-in-the-same-process", "%s: reading the complete compressed file of %s in a process that has read other keys files fails: %v", a.Key(), c.other.Key(), lerr)
		}
		var buf bytes.Buffer
		if _, err := ol.WriteTo(&buf); err != nil || !bytes.Equal(buf.Bytes(), c.otherFile) {
			return engine.Violatef("C11/reserialisation-differs/other-modes-file-in-the-same-process", "%s reloaded in a process that has also read %s files: the reloaded system does not write the file it was read from (err %v, %d vs %d bytes)", c.other.Key(), a.Key(), err, buf.Len(), len(c.otherFile))
		}
	}
	// the CLI nodes go by the run's ordinal WITHIN its worker (runs are dealt round-robin, so x.Run modulo
	// anything that shares a factor with the worker count would tie a node to particular workers' systems)
	if ops.Bin() != "" && c.ordinal(x)%3 == 0 {
		if v := c.cliConvert(x); v != nil {
			return v
		}
	}
	load := func(data []byte, what string) (*prover.ProvingSystem, *engine.Violation) {
		var ps *prover.ProvingSystem
		var err error
		func() {
			defer func() {
				if r := recover(); r != nil {
					err = fmt.Errorf("PANIC: %v", r)
				}
			}()
			switch style {
			case 2:
				p := filepath.Join(os.Getenv("VERIF_SCRATCH_DIR"), fmt.Sprintf("c11-%d-%d.ps", os.Getpid(), x.Run))
				if os.Getenv("VERIF_SCRATCH_DIR") == "" {
					p = filepath.Join(os.TempDir(), filepath.Base(p))
				}
				if werr := os.WriteFile(p, data, 0o644); werr != nil {
					panic(werr)
				}
				defer os.Remove(p)
				ps, err = prover.ReadSystemFromFile(p)
			case 1:
				var cuts []int
				n := 1 + t.Draw(10)
				for i := 0; i < n; i++ {
					cuts = append(cuts, int(t.BigBelow(bigInt(int64(len(data)))).Int64()))
				}
				if t.Chance(1, 2) {
					cuts = append(cuts, 4<<20, 8<<20) // bufio's refill boundary pattern
				}
				if t.Chance(1, 2) {
					// short reads inside the 8-byte header and around the section boundaries
					cuts = append(cuts, 1+t.Draw(3), 5+t.Draw(3))
					ends := d.rawB
					if what == "compressed" {
						ends = d.cmpB
					}
					for _, e := range ends[:3] {
						cuts = append(cuts, int(e)-1-t.Draw(3), int(e)+1+t.Draw(3))
					}
					x.S.Count("fault:disk/short-read-inside-header")
				}
				sort.Ints(cuts)
				ps = new(prover.ProvingSystem)
				_, err = ps.UnsafeReadFrom(&shortReader{data: data, cuts: cuts})
				x.S.Count("fault:disk/short-reads")
			default:
				ps = new(prover.ProvingSystem)
				_, err = ps.UnsafeReadFrom(bytes.NewReader(data))
			}
		}()
		if err != nil {
			return nil, engine.Violatef("C11/reload-fails/"+what, "%s: reading the %s file (%d bytes, reader style %d) fails: %v", a.Key(), what, len(data), style, err)
		}
		return ps, nil
	}
	var bps *prover.ProvingSystem
	var v *engine.Violation
	switch path {
	case "raw":
		bps, v = load(d.raw, "raw")
	case "compressed":
		bps, v = load(d.comp, "compressed")
	default:
		// node C converts: read compressed, write raw; the result must be A's raw file
		cps, cv := load(d.comp, "compressed")
		if cv != nil {
			return cv
		}
		var buf bytes.Buffer
		if _, err := cps.WriteRawTo(&buf); err != nil {
			return engine.Violatef("C11/convert-to-raw-fails", "%s: %v", a.Key(), err)
		}
		if !bytes.Equal(buf.Bytes(), d.raw) {
			return engine.Violatef("C11/converted-file-differs-from-raw-file", "%s: convert-to-raw output (%d bytes) is not the raw file A writes (%d bytes)", a.Key(), buf.Len(), len(d.raw))
		}
		bps, v = load(buf.Bytes(), "converted-raw")
		x.S.Count("probe:converted_path")
	}
	if v != nil {
		return v
	}
	x.S.Eval(1)
	x.Log.Addf("nodeB", "reload", "%s path=%s style=%d", a.Key(), path, style)
	if bps.TreeDepth != uint32(a.Depth) || bps.BatchSize != uint32(a.Batch) {
		return engine.Violatef("C11/reloaded-dimensions-differ", "%s via %s: reloaded system reports depth %d batch %d", a.Key(), path, bps.TreeDepth, bps.BatchSize)
	}
	reser := t.Draw(3)
	switch reser {
	case 1:
		var buf bytes.Buffer
		if _, err := bps.WriteRawTo(&buf); err != nil || !bytes.Equal(buf.Bytes(), d.raw) {
			return engine.Violatef("C11/reserialisation-differs/raw", "%s via %s: the reloaded system does not write A's raw file (err %v, %d vs %d bytes)", a.Key(), path, err, buf.Len(), len(d.raw))
		}
	case 2:
		var buf bytes.Buffer
		if _, err := bps.WriteTo(&buf); err != nil || !bytes.Equal(buf.Bytes(), d.comp) {
			return engine.Violatef("C11/reserialisation-differs/compressed", "%s via %s: the reloaded system does not write A's compressed file (err %v, %d vs %d bytes)", a.Key(), path, err, buf.Len(), len(d.comp))
		}
	}
	if path != "raw" || style != 0 {
		x.S.Seen(fmt.Sprintf("%s/salt%d/%s/style%d/reser%d", a.Key(), c.dw, path, style, reser))
	}
	b := &gtier.System{Mode: a.Mode, Depth: a.Depth, Batch: a.Batch, PS: bps}
	// B proves, A verifies
	pb, hb, err := proveValid(t, b)
	if err != nil {
		return engine.Violatef("C11/reloaded-system-cannot-prove", "%s via %s: %v", a.Key(), path, err)
	}
	if err := verifyVia(a, hb, pb); err != nil {
		return engine.Violatef("C11/original-rejects-proof-of-reloaded-system", "%s via %s: %v", a.Key(), path, err)
	}
	// A proves, B verifies
	pa, ha, err := proveValid(t, a)
	if err != nil {
		panic(fmt.Sprintf("original system cannot prove a valid batch: %v", err))
	}
	if err := verifyVia(b, ha, pa); err != nil {
		return engine.Violatef("C11/reloaded-system-rejects-proof-of-original", "%s via %s: %v", a.Key(), path, err)
	}
	// wrong hash and other-mode proof stay rejected by the reloaded system
	if err := verifyVia(b, bigInt(12345), pa); err == nil {
		return engine.Violatef("C11/reloaded-system-accepts-wrong-hash", "%s via %s", a.Key(), path)
	}
	po, ho, err := proveValid(t, c.other)
	if err != nil {
		panic(fmt.Sprintf("other-mode system cannot prove: %v", err))
	}
	if err := verifyVia(b, ho, po); err == nil {
		return engine.Violatef("C11/reloaded-system-accepts-other-mode-proof", "%s via %s accepts a proof of %s", a.Key(), path, c.other.Key())
	}
	if x.S.WantSample() {
		x.S.Sample(map[string]any{"system": a.Key(), "setup": c.dw, "file_path": path, "reader": []string{"bytes.Reader", "short reads", "ReadSystemFromFile"}[style], "raw_bytes": len(d.raw), "compressed_bytes": len(d.comp), "reserialised": []string{"no", "raw identical", "compressed identical"}[reser], "cross_prove_verify": "ok"})
	}
	return nil
}

// cliOnPrefix: the commands that read a keys file, run as real processes on a truncated file,
// must end non-zero (and `start` must not stay up serving a half-loaded system).
func (c *C15) cliOnPrefix(x *engine.Ctx, format string, prefix []byte, ends [4]int64, which int) *engine.Violation {
	t := x.T
	if which < 0 {
		which = t.Draw(6)
	}
	path := filepath.Join(c.scratch, fmt.Sprintf("c15cli-%d-%d.ps", os.Getpid(), x.Run))
	if err := os.WriteFile(path, prefix, 0o644); err != nil {
		panic(err)
	}
	defer os.Remove(path)
	out := path + ".out"
	defer os.Remove(out)
	mode := c.d.sys.Mode
	var args []string
	cmdName := ""
	switch which {
	case 0:
		cmdName, args = "prove", []string{"prove", "--mode", mode, "--keys-file", path}
	case 1:
		cmdName, args = "verify", []string{"verify", "--mode", mode, "--keys-file", path, "--input-hash", "0x1"}
	case 2:
		cmdName, args = "export-solidity", []string{"export-solidity", "--keys-file", path, "--output", out}
	case 3:
		cmdName, args = "export-vk", []string{"export-vk", "--keys-file", path, "--output", out}
	case 4:
		cmdName, args = "convert-to-raw", []string{"convert-to-raw", "--input", path, "--output", out}
	default:
		p1 := freePort(26000 + int(x.Run%5000))
		p2 := freePort(p1 + 1)
		cmdName, args = "start", []string{"start", "--mode", mode, "--keys-file", path, "--prover-address", fmt.Sprintf("127.0.0.1:%d", p1), "--metrics-address", fmt.Sprintf("127.0.0.1:%d", p2)}
	}
	r := ops.Run(ops.Cmd{Args: args, Stdin: []byte("{}"), Timeout: 90 * time.Second})
	x.S.Eval(1)
	sec := sectionOf(ends, int64(len(prefix)))
	x.S.Count("fault:disk/cli-on-truncated-file/" + cmdName)
	x.S.Seen(fmt.Sprintf("cli/%s/%s/%s", cmdName, format, sec))
	x.Log.Addf("cli", cmdName, "%s prefix=%d (%s) exit=%d timeout=%v", format, len(prefix), sec, r.Exit, r.TimedOut)
	where := fmt.Sprintf("`gnark-mbu %s` on a %s-format keys file truncated to %d of %d bytes (ends in %s)", cmdName, format, len(prefix), ends[3], sec)
	if r.TimedOut {
		return engine.Violatef("C15/cli-keeps-running-on-truncated-file/"+cmdName, "%s: still running after 90 s (a server that came up on a half-loaded system, or a hang)", where)
	}
	if bytes.Contains(r.Stderr, []byte("panic: ")) || bytes.Contains(r.Stderr, []byte("goroutine 1 [running]")) {
		return engine.Violatef("C15/cli-panics-on-truncated-file/"+cmdName, "%s: the process crashed with a Go panic (exit %d): %s", where, r.Exit, ops.Tail(r.Stderr, 300))
	}
	if r.Exit == 0 {
		return engine.Violatef("C15/cli-exits-zero-on-truncated-file/"+cmdName, "%s: exit status 0", where)
	}
	return nil
}

// cliConvert: `gnark-mbu convert-to-raw` on A's compressed file must write exactly A's raw file.
func (c *C11) ordinal(x *engine.Ctx) int {
	if c.nw <= 0 {
		return int(x.Run)
	}
	return int(x.Run) / c.nw
}

func (c *C11) cliConvert(x *engine.Ctx) *engine.Violation {
	dir, err := ops.Scratch(fmt.Sprintf("c11cli-%d-%d", os.Getpid(), x.Run))
	if err != nil {
		panic(err)
	}
	defer os.RemoveAll(dir)
	in, out := filepath.Join(dir, "in.ps"), filepath.Join(dir, "out.ps")
	if err := os.WriteFile(in, c.d.comp, 0o644); err != nil {
		panic(err)
	}
	variant := (c.ordinal(x) / 3) % 4 // enumerated, so that a short run covers every output-path history
	inPlace := variant == 1
	if inPlace {
		out = in // converting a keys file in place (same path for input and output)
		x.S.Count("probe:cli_convert_to_raw_in_place")
	} else if variant >= 2 {
		// history: the output path already holds something - an older keys file that is larger than what will
		// be written, a torn leftover of an interrupted earlier conversion, or unrelated bytes
		var old []byte
		switch {
		case variant == 2:
			old = append(append([]byte{}, c.d.raw...), c.d.comp[:len(c.d.comp)/3]...) // larger
		case x.T.Chance(1, 2):
			old = c.d.raw[:len(c.d.raw)/2] // a torn earlier attempt
		default:
			old = bytes.Repeat([]byte{0xEE}, len(c.d.raw)+4096)
		}
		if err := os.WriteFile(out, old, 0o644); err != nil {
			panic(err)
		}
		x.S.Count("probe:cli_convert_to_raw_over_existing_file")
	}
	r := ops.Run(ops.Cmd{Args: []string{"convert-to-raw", "--input", in, "--output", out}})
	x.S.Eval(1)
	x.S.Count("probe:cli_convert_to_raw")
	x.Log.Addf("cli", "convert-to-raw", "%s exit=%d", c.d.sys.Key(), r.Exit)
	if r.Exit != 0 {
		return engine.Violatef("C11/cli-convert-to-raw-fails", "%s: %s", c.d.sys.Key(), ops.Describe(r))
	}
	got, err := os.ReadFile(out)
	if err != nil {
		return engine.Violatef("C11/cli-convert-to-raw-fails", "%s: no output file: %v", c.d.sys.Key(), err)
	}
	if !bytes.Equal(got, c.d.raw) {
		// The property is about what the file reloads to, not about its bytes: a file that differs (say, by
		// bytes after the last section) but loads as the same system is not a violation.
		ps, lerr := prover.ReadSystemFromFile(out)
		if lerr != nil {
			return engine.Violatef("C11/cli-converted-file-does-not-reload", "%s: `gnark-mbu convert-to-raw` exited 0 (output-path history variant %d), but the %d-byte file it left does not load: %v", c.d.sys.Key(), variant, len(got), lerr)
		}
		var buf bytes.Buffer
		if _, werr := ps.WriteRawTo(&buf); werr != nil || !bytes.Equal(buf.Bytes(), c.d.raw) {
			return engine.Violatef("C11/cli-converted-file-differs-from-raw-file", "%s: `gnark-mbu convert-to-raw` wrote %d bytes that neither are nor reload to the raw file the system writes itself (%d bytes)", c.d.sys.Key(), len(got), len(c.d.raw))
		}
		x.S.Count("probe:cli_converted_file_differs_in_bytes_but_reloads_identically")
	}
	if c.ordinal(x)%2 == 0 {
		// the files are what the command-line prover and verifier boot from: node E reads the converted file,
		// node F the compressed one the setup wrote
		keys, what := out, "converted"
		if c.ordinal(x)%4 == 0 && !inPlace {
			keys, what = in, "compressed"
		}
		return c.cliProveVerify(x, keys, what)
	}
	return nil
}

// cliProveVerify: a fresh `gnark-mbu prove` process booted from the keys file must produce a proof the
// ORIGINAL system verifies, and a fresh `gnark-mbu verify` process booted from it must accept a proof the
// original system produced - interchangeability, observed where the files are actually consumed.
func (c *C11) cliProveVerify(x *engine.Ctx, keys, what string) *engine.Violation {
	s, t := c.d.sys, x.T
	var doc map[string]any
	var hash *big.Int
	var orig *prover.Proof
	var perr error
	gtier.SeedRand(uint64(t.U32())<<32|uint64(t.U32()), uint64(t.U32()))
	if s.Mode == rollup.Insertion {
		w, _ := validInsertion(t, s)
		doc, hash = service.InsertionDoc(w), w.InputHash
		orig, perr = s.PS.ProveInsertion(gtier.InsertionParams(w))
	} else {
		w, _ := validDeletion(t, s)
		doc, hash = service.DeletionDoc(w), w.InputHash
		orig, perr = s.PS.ProveDeletion(gtier.DeletionParams(w))
	}
	if perr != nil {
		panic("original system cannot prove a valid batch: " + perr.Error()) // C07's business; machinery trouble here
	}
	stdin, _ := json.Marshal(doc)
	seed := strconv.FormatUint(uint64(t.U32()), 10)
	r := ops.Run(ops.Cmd{Args: []string{"prove", "--keys-file", keys, "--mode", s.Mode}, Stdin: stdin, RandSeed: seed, Env: []string{"MTB_MODE="}})
	x.S.Eval(1)
	x.S.Count("probe:cli_prove_from_" + what + "_file")
	x.Log.Addf("cli", "prove", "%s file=%s exit=%d", s.Key(), what, r.Exit)
	if r.Exit != 0 {
		return engine.Violatef("C11/cli-prover-booted-from-file-fails", "%s: `gnark-mbu prove --mode %s` on the %s keys file of this system refuses a valid batch: %s", s.Key(), s.Mode, what, ops.Describe(r))
	}
	coords, derr := gtier.DecodeJSON(bytes.TrimSpace(r.Stdout))
	if derr != nil {
		return engine.Violatef("C11/cli-prover-booted-from-file-fails", "%s: prove exited 0 on the %s file but its output is not a proof: %v", s.Key(), what, derr)
	}
	if pr, ferr := gtier.FromCoordinates(coords); ferr != nil || gtier.VerifyWithVK(s, pr, hash) != nil {
		return engine.Violatef("C11/proof-from-reloaded-system-rejected-by-original", "%s: the proof `gnark-mbu prove` made from the %s keys file does not verify under the original verifying key", s.Key(), what)
	}
	pj, merr := orig.MarshalJSON()
	if merr != nil {
		panic(merr)
	}
	r = ops.Run(ops.Cmd{Args: []string{"verify", "--keys-file", keys, "--mode", s.Mode, "--input-hash", "0x" + hash.Text(16)}, Stdin: pj, RandSeed: seed, Env: []string{"MTB_MODE="}})
	x.S.Eval(1)
	x.S.Count("probe:cli_verify_from_" + what + "_file")
	x.Log.Addf("cli", "verify", "%s file=%s exit=%d", s.Key(), what, r.Exit)
	if r.Exit != 0 {
		return engine.Violatef("C11/original-proof-rejected-by-reloaded-system", "%s: `gnark-mbu verify --mode %s` booted from the %s keys file rejects a proof the original system produced: %s", s.Key(), s.Mode, what, ops.Describe(r))
	}
	return nil
}
