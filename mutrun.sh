#!/usr/bin/env bash
# developer helper: ./mutrun.sh <mutant-name> <Cxx> [tier] -> runs the check against /tmp/verif-mut/<name>, logs to /tmp/verif-mut/logs
M=$1; P=$2; T=${3:-quick}
mkdir -p /tmp/verif-mut/logs /tmp/verif-mut/out
VERIF_REPO=/tmp/verif-mut/$M VERIF_SCRATCH=/tmp/verif-scratch/mut-$M VERIF_OUT=/tmp/verif-mut/out/$M /verif/check $P --tier $T > /tmp/verif-mut/logs/$M-$P.log 2>&1
rc=$?
echo "$M $P exit=$rc $(grep -c '^VIOLATION' /tmp/verif-mut/logs/$M-$P.log) violations: $(grep '^violation class' /tmp/verif-mut/logs/$M-$P.log | head -3 | tr '\n' ' ')"
