#!/usr/bin/env bash
# Machinery self-test (DESIGN section 11): determinism of the event-log hashes.
#   ./selftest.sh determinism [props...]   -> for each property: same seed, fresh processes, GOMAXPROCS 1/4/16,
#                                             per-run event-log hashes must be identical
# Builds once against a scratch copy of /repo's working tree (instrumented, so every world can run).
set -u
export GOFLAGS=-mod=mod GOPROXY=off GOSUMDB=off GOTOOLCHAIN=local
MODE=${1:-determinism}; shift || true
PROPS=${@:-C18 C08 C01 C02 C03 C14 C13 C09 C20}
D=/tmp/verif-scratch/selftest
rm -rf $D; mkdir -p $D
trap 'rm -rf $D' EXIT
rsync -a --exclude .git /repo/ $D/repo/
mkdir -p $D/repo/simyield && cp /verif/sim/simyield/*.go $D/repo/simyield/
( cd $D/repo && go build -tags verif -o $D/gnark-mbu . ) || exit 2
( cd /verif/sim && go1.26.8 build -o $D/instrument ./cmd/instrument && $D/instrument $D/repo > /dev/null ) || exit 2
sed "s#@REPO@#$D/repo#" /verif/sim/go.mod.tmpl > $D/sim.mod
cat /repo/go.sum /verif/sim/go.sum.extra | sort -u > $D/sim.sum
( cd /verif/sim && go1.26.8 build -trimpath -modfile=$D/sim.mod -o $D/simcheck ./cmd/simcheck ) || exit 2
export VERIF_MBU_BIN=$D/gnark-mbu VERIF_SCRATCH_DIR=$D
FAIL=0
for P in $PROPS; do
  RUNS=48
  case $P in C18) RUNS=400;; C14) RUNS=1400;; C13|C09|C20) RUNS=24;; esac
  REF=""
  for G in 1 4 16; do for REP in 1 2; do
    mkdir -p /tmp/selftest-out
    GOMAXPROCS=$G $D/simcheck -prop $P -tier quick -seed ${SELFTEST_SEED:-11} -runs $RUNS -budget 100000 -hashes 2>/dev/null | grep '^HASH' | grep -v 'run=1 ' | sort > /tmp/selftest-out/$P-g$G-r$REP.txt
    H=$(md5sum < /tmp/selftest-out/$P-g$G-r$REP.txt | cut -d' ' -f1)
    [ -z "$REF" ] && REF=$H
    if [ "$H" != "$REF" ]; then echo "DETERMINISM-MISMATCH $P GOMAXPROCS=$G rep=$REP $H != $REF"; FAIL=1; fi
  done; done
  echo "determinism $P: $RUNS runs x 6 processes (GOMAXPROCS 1,4,16 x 2) -> $REF"
done
exit $FAIL
