#!/usr/bin/env python3
"""Regenerates MANIFEST.json from the table below (keeps it schema-valid at all times)."""
import json, subprocess, sys

SIM = "deterministic simulation with fault injection: "
CLAIMED = {
    # id: (level, technique, text, note, design_ref)
    "C01": ("exploration",
            SIM + "seeded rollup histories on a contract model; Byzantine prover (witness faults + forged hint outputs) against the real compiled insertion R1CS; both directions asserted; tape shrinking + fresh-process replay",
            "World R: per run a seeded history (earlier insertions/deletions leaving holes) on a reference contract model, then honest and adversarial insertion attempts from a catalogue of 18 witness faults (stale/corrupted/foreign paths, occupied targets, straddling, aliasing, >=2^32 and field-wrapping start indices, wrong post-roots, value+r representatives) evaluated on the real compiled R1CS at depths 1..32 with honest and forged hint functions; the wire vector is re-checked by an independent constraint evaluator. oracle-valid => accepted and oracle-invalid => rejected under every strategy tried, plus state-level refinement against the contract's leaf array. Exploration is the right level: the property quantifies over histories and a dishonest second party, which a seeded adversary with a reference model samples and unit tests never reach.",
            "Trusted: gnark's frontend/solver as the semantics of the compiled system (cross-checked by our evaluator); iden3 Poseidon and x/crypto Keccak as references; soundness probed by enumerated hint-forgery strategies, not proved.",
            "6.C01"),
    "C02": ("exploration",
            SIM + "seeded rollup histories; Byzantine prover against the real compiled deletion R1CS incl. padding slots with garbage and forged is-zero/bit hints; both directions asserted",
            "World R for the deletion circuit: seeded histories populate the contract model, then honest batches (distinct, duplicate with updated second slot, already-empty, padding slots with garbage item and path, all-padding) and 13 adversarial faults (wrong item, stale paths, corrupted siblings, padding-with-changed-root, index beyond padding range, claimed skip for in-range index, forged InvZero and NBits hints) are evaluated on the real R1CS at depths 1..31; verdicts are compared with the slot-by-slot semantics of the property and with the contract's leaf array.",
            "Trusted as C01. Depth 32 refusal is checked under C12.",
            "6.C02"),
    "C03": ("exploration",
            SIM + "Byzantine prover attacks only the hash binding of Merkle-valid batches (alternative representatives with forged bit hints, perturbed fields under the original hash, re-packed messages, stale hashes) on the real R1CS; accept-control with hash+k*r",
            "World R, hash-binding focus: every attempt starts from a Merkle-valid batch; the adversary sets the public input to the hash of its own forged packing (v+k*r representatives with NBits forged to exactly those bits, swapped/little-endian/wide packings, reordered fields, earlier batch's hash, neighbours) or keeps the original hash for a different but Merkle-consistent batch; all must be rejected while hash+k*r (same field element) must be accepted; on every accepting evaluation the public wire must equal the contract's own Keccak of the canonical packing. One- and multi-block message sizes for both modes (deletion batch 18-20 crosses the 136-byte rate). A generic forger additionally attacks whatever hint functions the compiled system references (discovered from the constraint system at run time): one output of one or of all calls is shifted, the other outputs of the call are compensated linearly (coefficients 0, +-1/2, +-1, +-2), and the public input is freed (read off the first failing constraint and presented instead); anything accepted must still carry the contract's hash.",
            "Trusted as C01; the contract's packing is written from the property text.",
            "6.C03"),
    "C07": ("exploration",
            SIM + "real Groth16 prove/verify of both modes with seeded crypto/rand; faulty prover-to-contract channel (wrong, stale, foreign and perturbed hashes, other-mode system, altered proof points) and dishonest sequencer (invalid / mis-shaped parameters) over short rollup histories",
            "World R at Groth16 fidelity: two real proving systems per worker (keys from a seeded stream), valid batches from the contract model proved by the real prover with tape-chosen randomness; each proof is delivered 12..20 times through a faulty channel and the real Verify* wrappers must accept exactly own hash and hash+k*r on the same system and reject neighbours, random values, the hash of a perturbed batch, the earlier batch's hash, a stale proof for the new hash, the other mode's system and altered A/B/C points; invalid batches from the adversary catalogue and eight kinds of mis-shaped parameter sets must yield (nil, error) without panicking.",
            "Trusted: Groth16 soundness itself; the contract model for validity; seeded sampling.",
            "6.C07"),
    "C08": ("exploration",
            SIM + "(a) seeded schedules of 2..5 concurrent callers of the helpers interleaved at statement granularity, each judged by its own packing; (b) seeded sequencer histories through the real tree and real input-hash helpers, steered (grinding) into roots with leading zero bytes; compared with the contract model's packing and evaluated on the real compiled circuit",
            "World R, honest sequencer: histories of 3..8 batches per run are built with the real PoseidonTree and hashed by the real ComputeInputHashInsertion/Deletion; a grind operation searches commitments (~48 Poseidon evaluations) until pre- and/or post-roots have a leading zero byte, the state the defect needs; every batch's hash is compared with the contract model's Keccak over the canonical fixed-width packing and the parameters are solved on the real R1CS. Found the unpadded-root defect on the pinned tree (fixed, see KNOWN_FINDINGS). The gen-test-params consequence is exercised at process level under C19. World L mode (a sixth of the runs): 2..5 caller tasks each hash their own unrelated parameter sets with the helpers while the tape-driven scheduler interleaves them at every statement of the instrumented library (single P, pools emptied before the run); each result is compared with the contract packing of that caller's own parameters.",
            "Trusted: x/crypto Keccak, packing from the property text; reach probes (pre/post/both roots short) are reported in evidence.",
            "6.C08"),
    "C09": ("exploration",
            SIM + "histories of requests of every class against the real server in a synctest bubble over a simulated network with fragmentation, wrong Content-Length, half-close, reset and vanishing clients; reference classifier written from the property text; proofs decoded by an independent decoder and verified",
            "World S: per run 3..9 requests over 2..4 connections (sequential keep-alive or pipelined; Content-Length, chunked, Expect: 100-continue) on one real server: valid batches, well-formed-but-invalid batches, wrong shapes, 16 malformed kinds, grey inputs, non-POST methods; request bytes arrive in tape-chosen fragments; network faults cut or over-announce bodies, half-close, reset or leave before the response; a final valid request on a fresh connection must return 200 with a proof that verifies for its own hash. Every response is compared with a three-valued reference classifier (definitely malformed -> 400 malformed_body, well-formed invalid / wrong shape -> 400 proving_error, valid -> 200 + verifying proof, non-POST -> 405, grey -> any documented 400 or a valid 200). Handler crashes surface as missing responses, hangs as 'nothing enabled and 14 s of fake time change nothing'.",
            "Trusted: net/http's HTTP parsing on both sides; our proof decoder and gnark's verifier; the grey class is deliberately not pinned.",
            "6.C09"),
    "C10": ("exploration",
            SIM + "(a) seeded schedules of 2..5 concurrent encoders/decoders interleaved at statement granularity, each judged by its own proof; (b) proof bytes decided by the seeded crypto/rand seam; real proofs plus a forged-proof adversary (generator multiples searched for short coordinates) round-tripped through the repository's JSON codec against an independent EVM-order decoder and the verifier",
            "Every proof (real ones with tape-chosen prover randomness; forged ones assembled from small multiples of the generators with 1..31 leading zero bytes, incl. (1,2)) is encoded by the repository, decoded by our own decoder and compared coordinate by coordinate with gnark's proof struct in the order A.x A.y B.x1 B.x0 B.y1 B.y0 C.x C.y, decoded by the repository and compared with the original, and verified before and after. Found the left-aligned-copy defect on the pinned tree (fixed, see KNOWN_FINDINGS). Proofs crossing the simulated HTTP wire are additionally decoded under C09/C13. World L mode (a fifth of the runs): 2..5 caller tasks encode and decode their own forged proofs while the tape-driven scheduler interleaves them at every statement of the instrumented codec (single P, pools emptied before the run); each caller's JSON must carry its own eight coordinates and decode back to its own proof.",
            "Trusted: gnark-crypto point arithmetic; reflection over gnark's internal proof struct for ground truth; EVM order from the property text.",
            "6.C10"),
    "C11": ("exploration",
            SIM + "nodes A/B/C over a simulated disk (in-memory files, sparse short reads, real files): write in either format, convert, reload, byte-identical re-serialisation and cross prove/verify between original and reloaded systems; independent seeded setups per worker",
            "World O, library level: node A (a real proving system; an independent seeded setup per worker, dimensions spread over the corners of the space: deletion batches larger than the tree (d2/b5, d1/b3), the largest depths (insertion d32, deletion d31), a batch that is not a power of two; depth != batch) writes compressed and raw files through the simulated disk; node B reloads through a plain reader, a reader with sparse legal short reads (incl. bufio's 4 MiB refill pattern) or ReadSystemFromFile on a real file; node C converts compressed to raw, which must be byte-identical to A's raw file. The reloaded system must report A's dimensions, re-serialise byte-identically in a tape-chosen format, prove a fresh valid batch that A verifies, verify a proof A made, reject a wrong hash and still reject a proof of the other mode's system. The CLI pass (setup -> prove / verify through real files) runs under C19. Every third run also drives `gnark-mbu convert-to-raw` with an enumerated output-path history (fresh path, in place, over an existing larger keys file, over a torn or unrelated file): exit 0 and a file that is, or at least reloads to, exactly A's raw file.",
            "Trusted: gnark's own key / constraint-system codecs below the repository's framing; seeded sampling of setups.",
            "6.C11"),
    "C12": ("exploration",
            SIM + "three construction paths as nodes (setup, import with exported keys, R1CS) in-process and as fresh `gnark-mbu r1cs` processes under tape-chosen GOMAXPROCS; SHA-256 of the serialised constraint system compared across all; SAMPLED, not controlled (stated limit)",
            "World O, process level: per run one (mode, depth, batch): two in-process compilations, 2..3 fresh CLI processes with GOMAXPROCS in {1,2,4,16}, the setup path and the import path (with A's exported pk/vk) must all serialise to the same bytes; the imported system proves a fresh valid batch that A's verifying key accepts; the public witness has exactly one element that follows the input hash alone; a fifth of the runs build a pair of dimensions one after the other in one process, the second chosen so that a lossy summary of (depth, batch) - decimal concatenation, sum, product, swapped order - coincides with the first's, and compare each with a fresh process (a build that comes second in a process is a run like any other); deletion above depth 31 is refused by BuildR1CS, Setup, Import and by `gnark-mbu setup` / `r1cs` (non-zero exit, no output file) while depth 31 still compiles - probed at 32..34, at 24 farther depths up to 4096 (incl. 62..66, 127..129, 255..257) and, once per worker on the R1CS path, at every depth 32..80. Limit, stated plainly: map-iteration order and OS scheduling of separate processes are behind no seam, so this nondeterminism is sampled (>= 5 compilations over >= 3 processes per configuration) rather than owned by the scheduler; a difference replays by class.",
            "Trusted: SHA-256; gnark serialisation as the observation of the constraint system.",
            "6.C12"),
    "C13": ("exploration",
            SIM + "2..5 overlapping prove requests on one shared ProvingSystem; every hand-over between handler goroutines is a tape decision at statement granularity of the repository's code (uniform, sticky, PCT, starve-one); per-request oracle",
            "World S: at least two valid requests with distinct input hashes plus unsatisfiable, mis-shaped, malformed and non-POST ones overlap on one real server; handler goroutines are parked at the inserted yield points (about 60 on the request path incl. JSON decoding, shape validation, witness assembly, error mapping) and released one at a time by the tape, so orders such as 'A decoded its body, B decodes, A proves' are produced on purpose, replayed and shrunk. Each response is judged against its own request only (status, error code, proof verifying for its own hash), and two different requests must not receive the same proof. In a quarter of the runs 2..12 further clients are slow uploaders whose requests stop arriving inside the body (handler already reading) until the rest of the system has been quiet for 5 s of simulated time; the other requests are dialled after that point and must be answered while the uploads are stalled (a response may not wait for another client's progress), and after the thaw every slow request gets its own correct answer too. Coverage is measured as context switches actually taken (site of X -> next site of Y). The data-race clause is not decidable under a serialising scheduler (hand-overs create happens-before edges): run 1 of the check is therefore an explicitly UNCONTROLLED companion mode (the real server built with -race on loopback ports, 2-3 rounds of 3-5 free-running requests plus an overlapping scraper); a race-detector report is a violation flagged 'uncontrolled' (not minimised; replay re-runs the mix up to five times) and the responses are judged by the same per-request oracle.",
            "Trusted: yields only in repository code; gnark's internal worker goroutines run to completion inside one step.",
            "6.C13"),
    "C14": ("fault_enumeration",
            SIM + "the real server.Run / RunningJob / net/http Shutdown inside a synctest bubble over a simulated network; the stop request is a scheduler action enumerated over every step of the bare start/stop schedule x starved task, and seeded (uniform, sticky, PCT, starve-one) with requests in flight; restart cycles on the same addresses",
            "World S: the instrumented copy of the current tree (a yield before every statement of server/, wrapped_http/, logging/, prover/ request-path code; ListenAndServe split into its library steps pre-check / bind / yield / Serve over simnet) runs in a synctest bubble. Runs 0..1199 enumerate the stop position (every scheduler step 0..119) times the starved task (0..8, plus first-enabled) of the bare start/stop; further runs place stop by tape, incl. relative to a request's arrival so that it lands while handlers are parked mid-proof, over up to 3 start/stop cycles. A quarter of the clients give up (reset their connection) at a tape-chosen moment after their request was delivered, typically while the handler is parked mid-proof: nothing is owed to them, and every later stop must still complete. Oracle: when AwaitStop returns both addresses bind at once; stop/await never get stuck (nothing enabled and 14 s of fake time change nothing); every request whose header block had been taken up by the server when stop was requested receives its complete, correct response (own decoder + Groth16 verify); no goroutine is left blocked at the end of the bubble. Found the bind->serve window defect on the pinned tree (fixed, see KNOWN_FINDINGS). The SIGINT / exit-status clause runs as twelve extra runs of the same check at process level: `gnark-mbu start` (built from the current tree) on loopback ports, 1..2 valid requests (in half of the runs one of them over a raw connection whose body is completed only after the signals, so that it is inside the handler for the whole drain), SIGINT once the in-flight gauge shows a request inside the handler, in half of the runs repeated once or twice 1-300 ms later, then: complete 200 with a verifying proof, exit status 0, both ports bindable at once (real sockets, uncontrolled schedule, timing-independent assertions).",
            "Trusted: testing/synctest quiescence and fake clock (go1.26.8); simnet's model of bind/accept/close; yields only in repository code (library code between two yields is atomic).",
            "6.C14"),
    "C19": ("exploration",
            SIM + "command histories of fresh gnark-mbu processes (seeded crypto/rand via the tag-guarded hook) over shared files with faults between steps; reference verdict from an independent decoder, the contract hash and gnark's verifier under the file's verifying key",
            "World O, process level: per worker `gnark-mbu setup` makes an insertion and a deletion keys file (dimensions chosen so that gen-test-params roots have a leading zero byte on half of the workers) - on a third of the workers over an output path that already holds an older, larger file, which the new keys file must replace entirely and reload from -; per run 5..10 commands: gen-test-params (stdout exactly one JSON line whose batch is provable), prove (exit 0 iff provable under the keys, stdout exactly one proof JSON + newline and nothing on failure), verify (exit 0 iff the reference verdict says valid), with faults: tampered / reordered / truncated proof JSON, neighbouring, foreign, non-numeric hashes and hash+r, keys of the other mode, absent / misspelt / mismatching --mode, missing and truncated keys files, invalid parameters, and what a failed upstream stage leaves on stdin (nothing, blank space, a document cut anywhere). A known-but-mismatching mode is not pinned by the property beyond 'success implies a proof valid under the keys' and is asserted as such.",
            "Trusted: the repository's file reader for loading the reference verifying key; kernel scheduling of processes is uncontrolled (assertions are on exit status and stdout only).",
            "6.C19"),
    "C20": ("exploration",
            SIM + "conservation law over seeded concurrent request mixes with metrics scrapes scheduled as ordinary actions (also while handlers are parked mid-proof); final equality against the simulator's tally, mid-run bounds",
            "World S: 2..7 requests of all kinds and methods overlap under tape-chosen scheduling; 1..2 scrapes of the separate metrics address are scheduled like any other client action and a final scrape follows the last response. Final: http_requests_total{endpoint_pattern=\"/prove\"} per (method label, code) equals the simulator's tally of responses sent, nothing is reported that was never sent, the sum equals the number of requests, the in-flight gauge exists and is 0. Mid-run: the scrape succeeds while k handlers are parked, and each total lies between responses already received and requests begun. Availability while proofs are computed is decided by the scheduler, not by timing: in half of the runs, once a task is parked in front of the Groth16 prover call, a scrape is delivered and only tasks not about to compute a proof are run (then 5 s of fake time pass); a scrape still unanswered can only be answered after a proof computation and is reported. Fault-injecting configurations (clients leaving before the response) are separate from fault-free ones and only widen the tally by an explicit slack. Run 1 is the uncontrolled companion mode (free-running goroutines on loopback): its scrape history is checked with porcupine against a per-(method, code) counter model (each request an increment inside its [call, return] interval, each scrape a read; Unknown is inconclusive, never reported), plus exact conservation at the final scrape.",
            "Trusted: Prometheus text exposition parsing; client_golang's documented method-label spelling.",
            "6.C20"),
    "C15": ("fault_enumeration",
            SIM + "crash points of the write of a real proving-system file enumerated over a simulated disk (crash after k bytes / ENOSPC at k), both formats; prefix read back through three reader styles; error / no panic / no hang oracle",
            "World O: the real WriteTo / WriteRawTo run through a simulated disk that crashes after k bytes (only the prefix survives) or reports ENOSPC at k (the write must report it). Run indices enumerate, for both formats, every offset of the 8-byte header, the first 256 bytes of and +-4 around each section (pk | vk | constraint system, boundaries found by a counting writer), a window of Write-call boundaries (array boundaries inside the keys) and the last 6 bytes (the cut points the property names - header, within a byte of a section boundary, the tail - come first); further runs draw uniform offsets. Each prefix is read by UnsafeReadFrom from memory, through a reader with legal short reads, or by ReadSystemFromFile from a real prefix file (structural cut points through all three): the result must be an error, never a panic, never a system, within a watchdog. Every fifth run is an element of an enumerated CLI matrix - the six commands that read a keys file (start, prove, verify, export-vk, export-solidity, convert-to-raw) x both formats x eight cut classes (header, inside the proving key, just before its end, inside the verifying key, exactly at the constraint-system boundary, just after it, inside the constraint system, within the last six bytes) - and a tenth of the others hand their prefix to a drawn command: non-zero exit, no panic, no hang, never a server left running. A crash in a library goroutine started by the repository's reader is attributed to the reader (creator chain of the goroutine dump).",
            "Trusted: truncation-to-prefix as the crash model (what the property quantifies over); quick tier covers a shuffled initial segment of the enumeration, thorough all of it.",
            "6.C15"),
    "C18": ("exploration",
            SIM + "seeded update histories of the real off-chain tree in lock-step with a reference leaf-array model; a tenth of the runs as 2..4 concurrent callers on separate trees interleaved at statement granularity; tape shrinking + fresh-process replay (re-executing the worker's earlier runs when the finding depends on process-wide state)",
            "Seeded histories (1..200 updates, depths 1..32, overwrites, zero writes, extreme and neighbouring indices, aliasing probes on earlier returned paths) drive the real PoseidonTree in lock-step with an independent sparse leaf-array model; root, returned path (old value/old root, new value/new root), sibling equality and read-back of untouched leaves are compared after every step. Values include relatives of what the history already holds (the same value elsewhere, byte-shifted, byte-reversed, neighbours, powers of two, short values of every byte length, the current root or an empty-subtree root used as a leaf, xor of two earlier values). World L mode (a tenth of the runs): 2..4 caller tasks replay their own histories on their own trees, interleaved by the tape at every statement of the instrumented tree code, each against its own precomputed model. Exploration is the right level: the property quantifies over histories, and a model-based seeded search with shrinking covers far more histories than the suite's zero.",
            "Trusted: iden3 Poseidon as reference hash; our own recursion/empty table; sampling, not proof.",
            "6.C18"),
}

NOT_APPLICABLE = {
    "C04": "pure function of the message bytes and length: no schedule, clock, fault, history or second party; deciding it needs exhaustive/differential input enumeration, a different technique family (DESIGN.md section 7). Production-length hashing is exercised incidentally under C03.",
    "C05": "pure function of one or two field elements; nothing for a simulator to schedule or fault (DESIGN.md section 7). Incidentally exercised by every root computed in World R.",
    "C06": "quantifies exhaustively over tiny prime fields and bit widths, i.e. bounded model checking of a pure gadget; its BN254 dishonest-prover aspect is exercised under C03 (DESIGN.md section 7).",
    "C16": "pure codec round-trip over parameter values; the rejection half that is observable at a system boundary (/prove) is claimed under C09 (DESIGN.md section 7).",
    "C17": "equality of a committed file with a deterministic function of the sources; nothing runs concurrently, fails or is scheduled (DESIGN.md section 7).",
}

ALL = ["C%02d" % i for i in range(1, 21)]


def main():
    checks = []
    for pid in ALL:
        if pid not in CLAIMED:
            continue
        level, technique, text, note, ref = CLAIMED[pid]
        checks.append({
            "property_id": pid,
            "quick_cmd": "./check %s --tier quick" % pid,
            "thorough_cmd": "./check %s --tier thorough" % pid,
            "evidence_file": "/verif/evidence/%s.json" % pid,
            "replay_cmd_template": "./check %s --replay {path}" % pid,
            "engine": "simcheck",
            "level_claimed": {"category": level, "text": text, "design_ref": "DESIGN.md " + ref},
            "level_note": note,
            "technique": technique,
        })
    na = []
    for pid in ALL:
        if pid in CLAIMED:
            continue
        reason = NOT_APPLICABLE.get(pid, "check under construction in this round; not claimed until it runs clean on the unchanged tree (see DESIGN.md section 6)")
        na.append({"property_id": pid, "reason": reason})
    hooks_commits = []
    try:
        out = subprocess.run(["git", "-C", "/repo", "log", "--format=%H %s"], capture_output=True, text=True).stdout
        for ln in out.splitlines():
            h, _, s = ln.partition(" ")
            if s.startswith("verif hook:"):
                hooks_commits.append(h)
    except Exception:
        pass
    m = {
        "version": 1,
        "setup_cmd": "./setup.sh",
        "hooks": {
            "guard": "verif",
            "enable": "go build -tags verif (process-level checks build gnark-mbu with the tag; the only hook is main_verif.go, which seeds crypto/rand when VERIF_RAND_SEED is set). World-S instrumentation (yield points, listener seam) is applied to a scratch copy at check time and never committed.",
            "baseline_off_cmd": "cd /repo && GOFLAGS=-mod=mod go test -json -vet=off -count=1 -timeout 25m ./...",
            "source_commits": hooks_commits,
            "add_only": True,
        },
        "engines": [{
            "name": "simcheck",
            "path": "/verif/sim",
            "serves_properties": sorted(CLAIMED.keys()),
            "kind_free_text": "deterministic simulator: choice tape (one PRNG value decides everything), event log hash, worker processes, tape-level minimisation, fresh-process replay; worlds R (rollup/Byzantine prover), S (service under synctest + simnet + inserted yields), O (files/processes)",
        }],
        "checks": checks,
        "not_applicable": na,
        "notes": "Every check copies /repo's working tree to a scratch directory, (for World S) instruments the copy, builds the harness with go1.26.8 against it and runs seeded simulated runs; exit 0/1/2 = held / VIOLATION / machinery trouble. Known findings: /verif/KNOWN_FINDINGS.",
    }
    json.dump(m, open("/verif/MANIFEST.json", "w"), indent=1)
    print("MANIFEST.json: %d checks, %d not claimed" % (len(checks), len(na)))


if __name__ == "__main__":
    main()
