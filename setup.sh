#!/usr/bin/env bash
# Run once after a fresh restore, offline: warms the Go build cache for both toolchains by
# building the harness and the instrumenter once against a scratch copy of /repo.
set -u
export GOFLAGS=-mod=mod GOPROXY=off GOSUMDB=off GOTOOLCHAIN=local
VERIF="$(cd "$(dirname "$0")" && pwd)"
S=/tmp/verif-scratch/setup
rm -rf "$S"; mkdir -p "$S"
trap 'rm -rf "$S"' EXIT
rsync -a --exclude .git /repo/ "$S/repo/" || exit 1
mkdir -p "$S/repo/simyield" && cp "$VERIF"/sim/simyield/*.go "$S/repo/simyield/"
sed "s#@REPO@#$S/repo#" "$VERIF/sim/go.mod.tmpl" > "$S/sim.mod"
cat /repo/go.sum "$VERIF/sim/go.sum.extra" 2>/dev/null | sort -u > "$S/sim.sum"
( cd "$VERIF/sim" && go1.26.8 build -trimpath -modfile="$S/sim.mod" -o "$S/simcheck" ./cmd/simcheck && go1.26.8 build -o "$S/instrument" ./cmd/instrument ) || { echo "setup: harness build failed" >&2; exit 1; }
( cd "$S/repo" && go build -tags verif -o "$S/gnark-mbu" . ) || { echo "setup: gnark-mbu build failed" >&2; exit 1; }
mkdir -p "$VERIF/evidence" "$VERIF/replays"
echo "setup ok"
