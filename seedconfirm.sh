#!/usr/bin/env bash
# developer helper: ./seedconfirm.sh <name> <out-dir-of-agent> <demo-dest-relative-path> <demo-src> "<demo cmd>"
# Confirms a seeded change in a fresh scratch worktree of /repo: builds, demo fails with / passes without,
# existing suite passes with it; stores patch, demo and meta under /verif/seeded/<name>/.
set -u
export GOFLAGS=-mod=mod GOPROXY=off GOSUMDB=off GOTOOLCHAIN=local
N=$1; OUT=$2; DEST=$3; SRC=$4; CMD=$5
WT=/tmp/wt-confirm/$N
LOG=/tmp/wt-confirm/$N.log
mkdir -p /tmp/wt-confirm; rm -rf $WT; git -C /repo worktree prune
git -C /repo worktree add -q --detach $WT HEAD || exit 2
cd $WT
{
echo "== apply"; git apply $OUT/patch.diff || { echo APPLY-FAILED; exit 2; }
echo "== build"; go build ./... || { echo BUILD-FAILED; exit 2; }
mkdir -p $(dirname $DEST); cp -r $SRC $DEST
echo "== demo with change (expect FAIL)"; unshare -n sh -c "ip link set lo up; $CMD" > $WT.demo1 2>&1; RC1=$?; tail -5 $WT.demo1; echo "rc=$RC1"
echo "== demo without change (expect PASS)"; git apply -R $OUT/patch.diff; unshare -n sh -c "ip link set lo up; $CMD" > $WT.demo2 2>&1; RC2=$?; tail -3 $WT.demo2; echo "rc=$RC2"
git apply $OUT/patch.diff
echo "== suite with change"; rm -rf $DEST; unshare -n sh -c "ip link set lo up; go test -vet=off -count=1 -timeout 25m ./..." > $WT.suite 2>&1; RC3=$?; grep -E "^(ok|FAIL|---)" $WT.suite | head -20; echo "rc=$RC3"
echo "RESULT $N demo_with=$RC1 demo_without=$RC2 suite=$RC3"
} > $LOG 2>&1
tail -1 $LOG
mkdir -p /verif/seeded/$N
cp $OUT/patch.diff /verif/seeded/$N/patch.diff
cp -r $SRC /verif/seeded/$N/
cp $OUT/notes.md /verif/seeded/$N/agent-notes.md 2>/dev/null
cd /; git -C /repo worktree remove --force $WT; rm -f $WT.demo1 $WT.demo2 $WT.suite
