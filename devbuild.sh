#!/usr/bin/env bash
# developer helper: (re)build the harness against a persistent scratch copy and vet it
export GOFLAGS=-mod=mod GOPROXY=off GOSUMDB=off GOTOOLCHAIN=local
D=/tmp/verif-dev
mkdir -p $D
rsync -a --delete --exclude .git /repo/ $D/repo/
mkdir -p $D/repo/simyield && cp /verif/sim/simyield/*.go $D/repo/simyield/
if [ "${INSTRUMENT:-0}" = 1 ]; then (cd /verif/sim && go1.26.8 build -o $D/instrument ./cmd/instrument && $D/instrument $D/repo) || exit 1; fi
sed "s#@REPO@#$D/repo#" /verif/sim/go.mod.tmpl > $D/sim.mod
cat /repo/go.sum /verif/sim/go.sum.extra | sort -u > $D/sim.sum
cd /verif/sim && go1.26.8 build -trimpath -modfile=$D/sim.mod -o $D/simcheck ./cmd/simcheck && go1.26.8 vet -modfile=$D/sim.mod ./... 
