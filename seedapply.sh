#!/usr/bin/env bash
# developer helper: ./seedapply.sh <name> <patch> -> /tmp/verif-mut/<name> (copy of /repo's working tree with the patch applied; builds)
set -e
N=$1; P=$2
D=/tmp/verif-mut/$N
rm -rf $D; mkdir -p $D; rsync -a --exclude .git /repo/ $D/
( cd $D && git init -q . >/dev/null 2>&1; git apply $P ) || { echo "APPLY FAILED"; exit 2; }
rm -rf $D/.git
(cd $D && GOFLAGS=-mod=mod GOPROXY=off go build ./... ) && echo "seeded copy $N ok at $D"
