#!/usr/bin/env python3
"""developer helper: seedmeta.py <name> <property> <needs> <demo_cmd> <caught: 'check|tier|class' or 'MISSED'> <what-it-is>"""
import json, sys, os
name, prop, needs, demo, caught, what = sys.argv[1:7]
d = '/verif/seeded/%s' % name
os.makedirs(d, exist_ok=True)
log = '/tmp/wt-confirm/%s.log' % name
res = ''
if os.path.exists(log):
    res = [l for l in open(log).read().splitlines() if l.startswith('RESULT')][-1:]
    res = res[0] if res else ''
try:
    table = json.load(open('/verif/seeded/results.json'))
    if name in table:
        caught = table[name]
except Exception:
    pass
meta = {
    "name": name,
    "property": prop,
    "what": what,
    "needs_to_manifest": needs,
    "source": "written by an independent sub-agent that saw only the property text and its own scratch worktree of /repo (nothing from /verif)",
    "confirmed_by_me": {
        "how": "fresh scratch worktree of /repo HEAD: git apply patch.diff; go build ./...; demonstration run with the change (must fail) and with the patch reverted (must pass); existing suite with the change: go test -vet=off -count=1 -timeout 25m ./...",
        "demo_cmd": demo,
        "result_line": res,
        "note": "suite=1 in the result line means only the known-flaky TestWrongMethod ('connection refused' while the listener comes up) failed",
    },
    "checks_run_against_it": "copy of /repo's working tree with patch.diff applied, ./check <id> --tier quick (VERIF_REPO=<copy>); equivalent to git -C /repo apply / checkout",
    "caught": caught,
}
json.dump(meta, open(d + '/meta.json', 'w'), indent=1)
print('wrote', d + '/meta.json')
