#!/usr/bin/env bash
# developer helper: ./mutate.sh <name> <file> <python-regex-from> <to>  -> /tmp/verif-mut/<name> (copy of /repo with one edit)
set -e
N=$1; F=$2; FROM=$3; TO=$4
D=/tmp/verif-mut/$N
rm -rf $D; mkdir -p $D; rsync -a --exclude .git /repo/ $D/
python3 - "$D/$F" "$FROM" "$TO" <<'PY'
import sys
p,frm,to=sys.argv[1:4]
s=open(p).read()
if frm not in s: sys.exit("pattern not found")
s=s.replace(frm,to,1)
open(p,'w').write(s)
PY
(cd $D && GOFLAGS=-mod=mod go build ./... ) && echo "mutant $N ok at $D"
